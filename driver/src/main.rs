#![feature(rustc_private)]
extern crate rustc_driver;
extern crate rustc_interface;
extern crate rustc_middle;
extern crate rustc_hir;
extern crate rustc_span;
extern crate rustc_abi;

use rustc_driver::Compilation;
use rustc_interface::interface::Compiler;
use rustc_middle::ty::{self, TyCtxt, Ty};
use rustc_middle::mir::*;
use rustc_hir::def::DefKind;
use rustc_hir::def_id::{DefId, LOCAL_CRATE};
use std::fmt::Write as _;

fn esc(s: &str) -> String {
    let mut o = String::with_capacity(s.len() + 2);
    o.push('"');
    for c in s.chars() {
        match c {
            '"' => o.push_str("\\\""),
            '\\' => o.push_str("\\\\"),
            '\n' => o.push_str("\\n"),
            '\r' => o.push_str("\\r"),
            '\t' => o.push_str("\\t"),
            c if (c as u32) < 0x20 => { let _ = write!(o, "\\u{:04x}", c as u32); }
            c => o.push(c),
        }
    }
    o.push('"');
    o
}

struct Cx<'tcx> { tcx: TyCtxt<'tcx>, owner: DefId }

impl<'tcx> Cx<'tcx> {
    fn ty(&self, t: Ty<'tcx>) -> String {
        let mut s = format!("{{\"s\":{}", esc(&t.to_string()));
        match t.kind() {
            ty::Adt(adt, _) => { let _ = write!(s, ",\"adt\":{}", esc(&self.tcx.def_path_str(adt.did()))); }
            ty::Ref(_, inner, m) => { let _ = write!(s, ",\"ref\":{},\"mut\":{}", self.ty(*inner), m.is_mut()); }
            ty::FnDef(d, _) => { let _ = write!(s, ",\"fndef\":{}", esc(&self.tcx.def_path_str(*d))); }
            ty::Closure(d, _) => { let _ = write!(s, ",\"closure\":{}", esc(&self.tcx.def_path_str(*d))); }
            ty::Slice(inner) => { let _ = write!(s, ",\"slice\":{}", self.ty(*inner)); }
            ty::Tuple(elems) if !elems.is_empty() => {
                let es: Vec<String> = elems.iter().map(|e| self.ty(e)).collect();
                let _ = write!(s, ",\"tuple\":[{}]", es.join(","));
            }
            _ => {}
        }
        s.push('}');
        s
    }
    fn place(&self, p: &Place<'tcx>) -> String {
        let mut s = format!("{{\"l\":{},\"p\":[", p.local.as_usize());
        for (i, e) in p.projection.iter().enumerate() {
            if i > 0 { s.push(','); }
            match e {
                ProjectionElem::Deref => s.push_str("{\"k\":\"deref\"}"),
                ProjectionElem::Field(f, t) => { let _ = write!(s, "{{\"k\":\"field\",\"i\":{},\"ty\":{}}}", f.as_usize(), self.ty(t)); }
                ProjectionElem::Index(l) => { let _ = write!(s, "{{\"k\":\"index\",\"l\":{}}}", l.as_usize()); }
                ProjectionElem::Downcast(name, v) => { let _ = write!(s, "{{\"k\":\"downcast\",\"v\":{},\"name\":{}}}", v.as_usize(), esc(&name.map(|n| n.to_string()).unwrap_or_default())); }
                other => { let _ = write!(s, "{{\"k\":\"other\",\"s\":{}}}", esc(&format!("{:?}", other))); }
            }
        }
        s.push_str("]}");
        s
    }
    fn constant(&self, c: &ConstOperand<'tcx>) -> String {
        let t = c.const_.ty();
        let mut s = format!("{{\"const\":{},\"ty\":{}", esc(&format!("{}", c.const_)), self.ty(t));
        if let ty::FnDef(d, args) = t.kind() {
            let env = ty::TypingEnv::post_analysis(self.tcx, self.owner);
            let res = match ty::Instance::try_resolve(self.tcx, env, *d, args) {
                Ok(Some(i)) => self.tcx.def_path_str(i.def_id()),
                _ => String::new(),
            };
            let _ = write!(s, ",\"fn\":{},\"fn_generic\":{},\"resolved\":{},\"local\":{}", esc(&self.tcx.def_path_str(*d)), esc(&self.tcx.def_path_str_with_args(*d, args)), esc(&res), d.is_local());
        }
        match c.const_ {
            Const::Unevaluated(uv, _) => {
                if let Some(p) = uv.promoted { let _ = write!(s, ",\"promoted\":{},\"promoted_of\":{}", p.as_usize(), esc(&self.tcx.def_path_str(uv.def))); }
                else if t.is_ref() {
                    // a named constant (e.g. `const SEP: &str = "!!!"`): evaluate it so that string constants keep their bytes
                    let env = ty::TypingEnv::post_analysis(self.tcx, self.owner);
                    if let Ok(v) = c.const_.eval(self.tcx, env, rustc_span::DUMMY_SP) {
                        if matches!(v, ConstValue::Slice { .. }) {
                            if let Some(bytes) = v.try_get_slice_bytes_for_diagnostics(self.tcx) {
                                let _ = write!(s, ",\"bytes\":[{}]", bytes.iter().map(|b| b.to_string()).collect::<Vec<_>>().join(","));
                            }
                        }
                    }
                }
            }
            Const::Val(v, _) if matches!(v, ConstValue::Slice { .. }) => {
                if let Some(bytes) = v.try_get_slice_bytes_for_diagnostics(self.tcx) {
                    let _ = write!(s, ",\"bytes\":[{}]", bytes.iter().map(|b| b.to_string()).collect::<Vec<_>>().join(","));
                }
            }
            _ => {}
        }
        let env = ty::TypingEnv::post_analysis(self.tcx, self.owner);
        if t.is_integral() || t.is_bool() || t.is_char() {
            if let Some(si) = c.const_.try_eval_scalar_int(self.tcx, env) {
                let _ = write!(s, ",\"int\":{}", esc(&format!("{:?}", si)));
            }
        }
        s.push('}');
        s
    }
    fn operand(&self, o: &Operand<'tcx>) -> String {
        match o {
            Operand::Copy(p) => format!("{{\"copy\":{}}}", self.place(p)),
            Operand::Move(p) => format!("{{\"move\":{}}}", self.place(p)),
            Operand::Constant(c) => self.constant(c),
            other => format!("{{\"op_other\":{}}}", esc(&format!("{:?}", other))),
        }
    }
    fn rvalue(&self, r: &Rvalue<'tcx>) -> String {
        match r {
            Rvalue::Use(o, _) => format!("{{\"k\":\"use\",\"o\":{}}}", self.operand(o)),
            Rvalue::Ref(_, bk, p) => format!("{{\"k\":\"ref\",\"mut\":{},\"p\":{}}}", matches!(bk, BorrowKind::Mut{..}), self.place(p)),
            Rvalue::RawPtr(_, p) => format!("{{\"k\":\"rawptr\",\"p\":{}}}", self.place(p)),
            Rvalue::Cast(kind, o, t) => format!("{{\"k\":\"cast\",\"ck\":{},\"o\":{},\"ty\":{}}}", esc(&format!("{:?}", kind)), self.operand(o), self.ty(*t)),
            Rvalue::BinaryOp(op, b) => format!("{{\"k\":\"binop\",\"op\":{},\"a\":{},\"b\":{}}}", esc(&format!("{:?}", op)), self.operand(&b.0), self.operand(&b.1)),
            Rvalue::UnaryOp(op, o) => format!("{{\"k\":\"unop\",\"op\":{},\"o\":{}}}", esc(&format!("{:?}", op)), self.operand(o)),
            Rvalue::Discriminant(p) => format!("{{\"k\":\"discr\",\"p\":{}}}", self.place(p)),
            Rvalue::CopyForDeref(p) => format!("{{\"k\":\"use\",\"o\":{{\"copy\":{}}}}}", self.place(p)),
            Rvalue::Aggregate(kind, fields) => {
                let fs: Vec<String> = fields.iter().map(|f| self.operand(f)).collect();
                let k = match &**kind {
                    AggregateKind::Adt(did, vidx, _, _, _) => {
                        let adt = self.tcx.adt_def(*did);
                        let vname = adt.variant(*vidx).name.to_string();
                        format!("{{\"adt\":{},\"variant\":{},\"vname\":{}}}", esc(&self.tcx.def_path_str(*did)), vidx.as_usize(), esc(&vname))
                    }
                    AggregateKind::Tuple => "{\"tuple\":true}".to_string(),
                    AggregateKind::Array(_) => "{\"array\":true}".to_string(),
                    AggregateKind::Closure(did, _) => format!("{{\"closure\":{}}}", esc(&self.tcx.def_path_str(*did))),
                    other => format!("{{\"agg_other\":{}}}", esc(&format!("{:?}", other))),
                };
                format!("{{\"k\":\"agg\",\"kind\":{},\"fields\":[{}]}}", k, fs.join(","))
            }
            other => format!("{{\"k\":\"other\",\"s\":{}}}", esc(&format!("{:?}", other))),
        }
    }
    fn span(&self, sp: rustc_span::Span) -> String {
        let sm = self.tcx.sess.source_map();
        let call = sp.source_callsite();
        format!("{{\"s\":{},\"exp\":{},\"callsite\":{}}}", esc(&sm.span_to_diagnostic_string(sp)), sp.from_expansion(), esc(&sm.span_to_diagnostic_string(call)))
    }
    fn body(&self, name: &str, body: &Body<'tcx>, extra: &str) -> String {
        let mut s = format!("{{\"name\":{},\"arg_count\":{},\"span\":{}{},\"locals\":[", esc(name), body.arg_count, self.span(body.span), extra);
        for (i, (l, d)) in body.local_decls.iter_enumerated().enumerate() {
            if i > 0 { s.push(','); }
            let _ = write!(s, "{{\"i\":{},\"ty\":{}}}", l.as_usize(), self.ty(d.ty));
        }
        s.push_str("],\"debug\":[");
        let mut first = true;
        for vdi in body.var_debug_info.iter() {
            if let VarDebugInfoContents::Place(p) = &vdi.value {
                if !first { s.push(','); } first = false;
                let _ = write!(s, "{{\"name\":{},\"p\":{}}}", esc(&vdi.name.to_string()), self.place(p));
            }
        }
        s.push_str("],\"blocks\":[");
        for (bi, (bb, data)) in body.basic_blocks.iter_enumerated().enumerate() {
            if bi > 0 { s.push(','); }
            let _ = write!(s, "{{\"i\":{},\"cleanup\":{},\"stmts\":[", bb.as_usize(), data.is_cleanup);
            let mut first = true;
            for st in data.statements.iter() {
                let js = match &st.kind {
                    StatementKind::Assign(b) => Some(format!("{{\"k\":\"assign\",\"p\":{},\"r\":{},\"span\":{}}}", self.place(&b.0), self.rvalue(&b.1), self.span(st.source_info.span))),
                    StatementKind::SetDiscriminant { place, variant_index } => Some(format!("{{\"k\":\"setdiscr\",\"p\":{},\"v\":{}}}", self.place(place), variant_index.as_usize())),
                    StatementKind::StorageLive(_) | StatementKind::StorageDead(_) | StatementKind::Nop => None,
                    other => Some(format!("{{\"k\":\"other\",\"s\":{}}}", esc(&format!("{:?}", other)))),
                };
                if let Some(js) = js { if !first { s.push(','); } first = false; s.push_str(&js); }
            }
            s.push_str("],\"term\":");
            let term = data.terminator();
            let tj = match &term.kind {
                TerminatorKind::Goto { target } => format!("{{\"k\":\"goto\",\"t\":{}}}", target.as_usize()),
                TerminatorKind::SwitchInt { discr, targets } => {
                    let arms: Vec<String> = targets.iter().map(|(v, t)| format!("[{},{}]", v, t.as_usize())).collect();
                    format!("{{\"k\":\"switch\",\"d\":{},\"arms\":[{}],\"otherwise\":{}}}", self.operand(discr), arms.join(","), targets.otherwise().as_usize())
                }
                TerminatorKind::Return => "{\"k\":\"return\"}".to_string(),
                TerminatorKind::Unreachable => "{\"k\":\"unreachable\"}".to_string(),
                TerminatorKind::UnwindResume => "{\"k\":\"resume\"}".to_string(),
                TerminatorKind::Drop { place, target, .. } => format!("{{\"k\":\"drop\",\"p\":{},\"t\":{}}}", self.place(place), target.as_usize()),
                TerminatorKind::Call { func, args, destination, target, .. } => {
                    let a: Vec<String> = args.iter().map(|x| self.operand(&x.node)).collect();
                    format!("{{\"k\":\"call\",\"f\":{},\"args\":[{}],\"dest\":{},\"t\":{}}}", self.operand(func), a.join(","), self.place(destination), target.map(|t| t.as_usize() as i64).unwrap_or(-1))
                }
                TerminatorKind::Assert { cond, expected, msg, target, .. } => {
                    format!("{{\"k\":\"assert\",\"cond\":{},\"expected\":{},\"msg\":{},\"t\":{}}}", self.operand(cond), expected, esc(&format!("{:?}", msg)), target.as_usize())
                }
                other => format!("{{\"k\":\"other\",\"s\":{}}}", esc(&format!("{:?}", other))),
            };
            let _ = write!(s, "{{\"t\":{},\"span\":{}}}}}", tj, self.span(term.source_info.span));
        }
        s.push_str("]}");
        s
    }
}

struct Cb;
impl rustc_driver::Callbacks for Cb {
    fn after_analysis<'tcx>(&mut self, _c: &Compiler, tcx: TyCtxt<'tcx>) -> Compilation {
        let crate_name = tcx.crate_name(LOCAL_CRATE);
        let dir = match std::env::var("PPG_DUMP_DIR") { Ok(p) => p, Err(_) => return Compilation::Continue };
        let out_path = format!("{}/{}-{}.json", dir, crate_name.as_str(), std::process::id());
        let mut out = String::from("{\"bodies\":[");
        let mut n = 0;
        for ldid in tcx.hir_body_owners() {
            let did = ldid.to_def_id();
            let kind = tcx.def_kind(did);
            if !matches!(kind, DefKind::Fn | DefKind::AssocFn | DefKind::Closure) { continue; }
            let cx = Cx { tcx, owner: did };
            let body = tcx.optimized_mir(did);
            let vis = if matches!(kind, DefKind::Fn | DefKind::AssocFn) { format!("{:?}", tcx.visibility(did)) } else { String::new() };
            let derived = matches!(kind, DefKind::AssocFn) && tcx.is_automatically_derived(tcx.parent(did));
            let extra = format!(",\"kind\":{},\"vis\":{},\"derived\":{}", esc(&format!("{:?}", kind)), esc(&vis), derived);
            if n > 0 { out.push(','); }
            out.push_str(&cx.body(&tcx.def_path_str(did), body, &extra));
            n += 1;
            for (pi, pbody) in tcx.promoted_mir(did).iter_enumerated() {
                out.push(',');
                let extra = format!(",\"kind\":\"Promoted\",\"promoted_index\":{},\"promoted_of\":{}", pi.as_usize(), esc(&tcx.def_path_str(did)));
                out.push_str(&cx.body(&format!("{}::promoted[{}]", tcx.def_path_str(did), pi.as_usize()), pbody, &extra));
                n += 1;
            }
        }
        out.push_str("],\"adts\":[");
        let mut first = true;
        for id in tcx.hir_free_items() {
            let did = id.owner_id.to_def_id();
            if matches!(tcx.def_kind(did), DefKind::Struct | DefKind::Enum) {
                let adt = tcx.adt_def(did);
                if !first { out.push(','); } first = false;
                let _ = write!(out, "{{\"path\":{},\"enum\":{},\"variants\":[", esc(&tcx.def_path_str(did)), adt.is_enum());
                for (vi, v) in adt.variants().iter_enumerated() {
                    if vi.as_usize() > 0 { out.push(','); }
                    let fields: Vec<String> = v.fields.iter().map(|f| format!("{{\"name\":{},\"ty\":{}}}", esc(&f.name.to_string()), Cx{tcx, owner: did}.ty(tcx.type_of(f.did).instantiate_identity().skip_normalization()))).collect();
                    let _ = write!(out, "{{\"name\":{},\"fields\":[{}]}}", esc(&v.name.to_string()), fields.join(","));
                }
                out.push_str("]}");
            }
        }
        out.push_str("]}");
        std::fs::write(&out_path, out).expect("write facts");
        eprintln!("PPG-DUMP bodies={} -> {}", n, out_path);
        Compilation::Continue
    }
}
fn main() {
    let mut args: Vec<String> = std::env::args().collect();
    args.remove(1);
    rustc_driver::run_compiler(&args, &mut Cb);
}
