"""./check <property> [--thorough]  — decide one property on /repo's current working tree."""
import os
import sys
import time
import json
import traceback

sys.path.insert(0, os.path.dirname(os.path.abspath(__file__)))
import extract
import framework
import protocol
from interp import Imprecision

LEVELS = {"C17": "proof", "C20": "proof"}


def registry():
    import rules_protocol
    reg = {"C20": rules_protocol.check_C20, "C17": rules_protocol.check_C17}
    import rules_more
    import rules_history
    import rules_compare
    import rules_c04
    reg.update(rules_more.REGISTRY)
    return reg


def run_all(argv):
    """development aid: decide every claimed property in one process (shared extraction and abstract runs);
    prints one summary line per property; exit 1 if any reports a violation"""
    tier = "thorough" if "--thorough" in argv else "quick"
    reg = registry()
    only = [a for a in argv if a in reg]
    rc = 0
    path, key, dt, cached = extract.extract("lib", force=(tier == "thorough"))
    A = protocol.Analysis(path)
    for prop in sorted(only or reg):
        t0 = time.time()
        R = framework.Report(prop, LEVELS.get(prop, "other"))
        try:
            R.info["analysed"] = dict(bodies=len(A.facts.bodies), source_hash=key)
            reg[prop](A, R, tier)
        except Imprecision as e:
            R.ob("A0", "fail closed: %s" % e, False)
        except Exception as e:
            traceback.print_exc()
            R.ob("A0", "fail closed: internal error %s" % type(e).__name__, False, detail=str(e))
        for r in A.runs.values():
            if r.err:
                R.ob("A1", "%s | %s | analysis error" % (r.entry.split("::")[-1], r.label), False, detail=r.err)
        rc |= framework.finish(R, tier, t0, dict(facts=path, source_hash=key), quiet=True)
    return rc


def thorough_extras(prop, reg, R):
    """thorough tier: the same rules on the cfg(test) build of the library (a violation must not hide in a configuration
    the default build does not parse), an inventory of the binaries, and the checker's self-test on scratch copies"""
    # 1. the library as built for `cargo test`
    try:
        p2, k2, dt2, c2 = extract.extract("libtest", force=True)
        A2 = protocol.Analysis(p2)
        R2 = framework.Report(prop, R.level)
        reg[prop](A2, R2, "quick")
        for o in R2.obs:
            # (the structural key is kept as it is: a known finding is the same finding in the cfg(test) build of the library)
            R.obs.append(framework.Ob(o.rule, "cfg(test) | " + o.key.split(" | ", 1)[1], o.ok, o.detail, o.site, o.what,
                                      o.skey.split(" | ", 1)[1] if o.skey else None))
        R.info["cfg_test_build"] = dict(bodies=len(A2.facts.bodies), obligations=len(R2.obs), source_hash=k2)
    except Imprecision as e:
        R.ob("A0", "cfg(test) | fail closed: %s" % e, False)
    # 2. the three binaries only drive the library; they are inventoried (they must build under the driver)
    try:
        p3, k3, dt3, c3 = extract.extract("bins", force=False)
        import mir
        F3 = mir.Facts(p3)
        R.info["binaries"] = dict(bodies=len(F3.bodies), units=F3.meta.get("units"))
    except Exception as e:
        R.info["binaries"] = dict(error=str(e)[:200])
    # 3. self-test of the checker on the seeded / refactoring corpora (scratch copies outside /repo and /verif)
    import selftest
    try:
        st = selftest.run(prop)
    except Exception as e:
        st = dict(error="%s: %s" % (type(e).__name__, e), must_fire=[], must_stay_silent=[], skipped=[])
    mf = st.get("must_fire", [])
    ms = st.get("must_stay_silent", [])
    missed = [x["seed"] for x in mf if x["expected_to_fire"] and not x["fired"]]
    noisy = [x["refactoring"] for x in ms if not x["silent"]]
    R.info["selftest"] = dict(seeded_changes=len(mf), fired=sum(1 for x in mf if x["fired"]),
                              expected_but_missed=missed, refactorings=len(ms), silent=sum(1 for x in ms if x["silent"]),
                              false_alarms=noisy, skipped=st.get("skipped", []), error=st.get("error"),
                              detail=dict(must_fire=mf, must_stay_silent=ms))
    # the self-test is part of what the thorough tier claims to have done: if it could not run, say so (fail closed)
    R.ob("A2", "selftest | the checker's self-test on the seeded / refactoring corpora ran", not st.get("error"),
         detail=str(st.get("error") or ""))
    if missed or noisy or st.get("error"):
        sys.stderr.write("SELFTEST of the %s check: missed seeds %s, refactorings with alarms %s %s\n" % (prop, missed, noisy, st.get("error") or ""))


def main(argv):
    if argv and argv[0] == "--all":
        return run_all(argv[1:])
    if len(argv) >= 2 and argv[0] == "--explain":
        with open(argv[1]) as fh:
            print(json.dumps(json.load(fh), indent=1))
        return 0
    prop = argv[0]
    tier = "thorough" if ("--thorough" in argv or os.environ.get("VERIF_TIER") == "thorough") else "quick"
    t0 = time.time()
    reg = registry()
    if prop not in reg:
        print("unknown property %s" % prop)
        return 2
    R = framework.Report(prop, LEVELS.get(prop, "other"))
    facts_info = {}
    try:
        path, key, dt, cached = extract.extract("lib", force=(tier == "thorough"))
        facts_info = dict(facts=path, source_hash=key, extraction_s=round(dt, 1), cached=cached)
        A = protocol.Analysis(path)
        R.info["analysed"] = dict(bodies=len(A.facts.bodies), evaluator=A.L.evaluator, job_states=len(A.JS), signal_kinds=len(A.SK),
                                  source_hash=key, facts_cached=cached)
        reg[prop](A, R, tier)
        R.info["partitions_run"] = A.stats["partitions"]
        if tier == "thorough":
            thorough_extras(prop, reg, R)
        notes = {}
        for r in A.runs.values():
            for k, v in r.notes.items():
                notes.setdefault(k, set()).update(v)
            if r.err:
                R.ob("A1", "%s | %s | analysis error" % (r.entry.split("::")[-1], r.label), False, detail=r.err)
        R.info["interpreter_notes"] = dict((k, sorted(v)) for k, v in notes.items())
    except Imprecision as e:
        R.ob("A0", "fail closed: %s" % e, False, detail="an anchor is missing or a tracked construct could not be analysed")
    except Exception as e:
        traceback.print_exc()
        R.ob("A0", "fail closed: internal error %s" % type(e).__name__, False, detail=str(e))
    return framework.finish(R, tier, t0, facts_info)


if __name__ == "__main__":
    sys.exit(main(sys.argv[1:]))
