"""Rules for the remaining properties (registered in REGISTRY at the end)."""
import mir as M
from domain import fin, adt_variants, TOP, BOOL
from interp import Imprecision
from rules_protocol import (short, effects, set_fields, event_kinds, sig_writes, is_role, role_str, elem_is_key, connected,
                            phase, tkey, EVENTS, pairing)

REGISTRY = {}


def prop(pid):
    def deco(f):
        REGISTRY[pid] = f
        return f
    return deco


# =============================================================================================
# A7: call graph

def call_graph(A):
    g = {}
    for n in A.facts.order:
        b = A.facts.bodies[n]
        if b.kind == "Promoted":
            continue
        es = g.setdefault(n, set())
        for blk in b.blocks:
            if blk["cleanup"]:
                continue
            for st in blk["stmts"]:
                if st["k"] == "assign" and st["r"]["k"] == "agg" and "closure" in st["r"]["kind"]:
                    es.add(st["r"]["kind"]["closure"])
                # fn items passed as values
                if st["k"] == "assign":
                    for o in operands_of(st["r"]):
                        if "fn" in o and A.facts.body(o.get("resolved") or o["fn"]) is not None:
                            es.add(o.get("resolved") or o["fn"])
            t = blk["term"]["t"]
            if t["k"] == "call":
                c = M.callee_of(t)
                if c is not None:
                    nm = c[1] or c[0]
                    if A.facts.body(nm) is not None:
                        es.add(nm)
                for o in t["args"]:
                    if "fn" in o and A.facts.body(o.get("resolved") or o["fn"]) is not None:
                        es.add(o.get("resolved") or o["fn"])
    return g


def operands_of(r):
    k = r["k"]
    if k in ("use", "cast", "unop"):
        return [r["o"]]
    if k == "binop":
        return [r["a"], r["b"]]
    if k == "agg":
        return list(r["fields"])
    return []


def sccs(g):
    index = {}
    low = {}
    onstack = set()
    stack = []
    out = []
    counter = [0]
    import sys
    sys.setrecursionlimit(10000)

    def strong(v):
        index[v] = low[v] = counter[0]
        counter[0] += 1
        stack.append(v)
        onstack.add(v)
        for w in g.get(v, ()):
            if w not in index:
                strong(w)
                low[v] = min(low[v], low[w])
            elif w in onstack:
                low[v] = min(low[v], index[w])
        if low[v] == index[v]:
            comp = []
            while True:
                w = stack.pop()
                onstack.discard(w)
                comp.append(w)
                if w == v:
                    break
            out.append(comp)
    for v in g:
        if v not in index:
            strong(v)
    return out


def api_roots(A):
    roots = [b.name for b in A.evaluator_methods() if b.vis == "Public"]
    for n in A.facts.order:
        if "PyPPG2Evaluator" in n and A.facts.bodies[n].kind == "AssocFn":
            roots.append(n)
    return roots


def reachable_from(g, roots):
    seen = set()
    st = list(roots)
    while st:
        x = st.pop()
        if x in seen:
            continue
        seen.add(x)
        st.extend(g.get(x, ()))
    return seen


def backward_slice(body, local, limit=200):
    """locals and 'sources' (constants, calls, params) the value of `local` may derive from (flow-insensitive)"""
    defs = {}
    for blk in body.blocks:
        if blk["cleanup"]:
            continue
        for st in blk["stmts"]:
            if st["k"] == "assign" and not st["p"]["p"]:
                defs.setdefault(st["p"]["l"], []).append(("rv", st["r"]))
        t = blk["term"]["t"]
        if t["k"] == "call" and not t["dest"]["p"]:
            defs.setdefault(t["dest"]["l"], []).append(("call", t))
    seen = set()
    src = {"consts": set(), "calls": set(), "params": set(), "places": set()}
    st = [local]
    while st and len(seen) < limit:
        l = st.pop()
        if l in seen:
            continue
        seen.add(l)
        if 1 <= l <= body.arg_count:
            src["params"].add(l)
        for kind, d in defs.get(l, ()):
            if kind == "call":
                c = M.callee_of(d)
                src["calls"].add((c[1] or c[0]) if c else "<indirect>")
                for o in d["args"]:
                    p = o.get("copy") or o.get("move")
                    if p is not None:
                        st.append(p["l"])
            else:
                for o in operands_of(d) if d["k"] != "ref" else []:
                    p = o.get("copy") or o.get("move")
                    if p is not None:
                        st.append(p["l"])
                        if p["p"]:
                            src["places"].add(M.fmt_place(p))
                    elif "const" in o and "fn" not in o:
                        src["consts"].add(o["const"])
                if d["k"] == "ref":
                    st.append(d["p"]["l"])
                    if d["p"]["p"]:
                        src["places"].add(M.fmt_place(d["p"]))
                if d["k"] in ("discr",):
                    st.append(d["p"]["l"])
    return src


def error_exit_blocks(A, body):
    """blocks that construct the error type or enter a panic"""
    out = set()
    for blk in body.blocks:
        if blk["cleanup"]:
            continue
        for st in blk["stmts"]:
            if st["k"] == "assign" and st["r"]["k"] == "agg" and st["r"]["kind"].get("adt") == A.L.error_ty:
                out.add(blk["i"])
        t = blk["term"]["t"]
        if t["k"] == "call" and t["t"] < 0:
            out.add(blk["i"])
    return out


def returns_of(body):
    return [blk["i"] for blk in body.blocks if not blk["cleanup"] and blk["term"]["t"]["k"] == "return"]


@prop("C19")
def check_C19(A, R, tier):
    g = call_graph(A)
    roots = api_roots(A)
    R.floor("R19.1", "public API roots", len(roots), 10)
    reach = reachable_from(g, roots)
    R.info["call_graph"] = dict(functions=len(g), edges=sum(len(v) for v in g.values()), reachable_from_api=len(reach))
    n_cyc = 0
    comps = sccs(g)
    for comp in comps:
        cyc = len(comp) > 1 or (comp[0] in g.get(comp[0], ()))
        if not cyc:
            continue
        if not (set(comp) & reach):
            continue
        if all(A.facts.bodies[c].derived for c in comp):
            continue
        n_cyc += 1
        names = sorted(short(c) for c in comp)
        R.ob("R19.1", "recursive cycle: %s" % ", ".join(names), False,
             detail="native recursion reachable from the public API: its depth is a path length of the user's graph, so the "
                    "stack bounds the graph depth", site=A.facts.bodies[comp[0]].span["s"])
    for n in sorted(reach):
        b = A.facts.bodies.get(n)
        if b is None or b.kind == "Promoted" or b.derived:
            continue
        # one obligation per reachable function: it is not on a cycle
        on_cycle = any((n in comp) and (len(comp) > 1 or n in g.get(n, ())) for comp in comps)
        if not on_cycle:
            R.ob("R19.1", "%s is not recursive" % short(n), True)
    # R19.2: fixed numeric limits that lead to an error
    n_cmp = 0
    for n in sorted(reach):
        b = A.facts.bodies.get(n)
        if b is None or b.kind == "Promoted" or b.derived:
            continue
        errs = error_exit_blocks(A, b)
        if not errs:
            continue
        rets = returns_of(b)
        for blk in b.blocks:
            if blk["cleanup"]:
                continue
            t = blk["term"]["t"]
            if t["k"] != "switch":
                continue
            p = t["d"].get("copy") or t["d"].get("move")
            if p is None or p["p"]:
                continue
            # find the defining comparison in this block
            cmpst = None
            for st in blk["stmts"]:
                if st["k"] == "assign" and not st["p"]["p"] and st["p"]["l"] == p["l"] and st["r"]["k"] == "binop" \
                        and st["r"]["op"] in ("Gt", "Ge", "Lt", "Le"):
                    cmpst = st
            if cmpst is None:
                continue
            # does one successor inevitably end in an error?
            succs = b.succs(blk["i"])
            err_succ = []
            for s_ in succs:
                r = b.reachable(s_, errs - {s_}) if s_ not in errs else set()
                if not (set(rets) & r):
                    others = [x for x in succs if x != s_]
                    err_succ.append(s_)
            if not err_succ or len(err_succ) == len(succs):
                continue
            # integer comparison operands
            tys = []
            for o in (cmpst["r"]["a"], cmpst["r"]["b"]):
                pl = o.get("copy") or o.get("move")
                tys.append(b.locals[pl["l"]]["s"] if (pl is not None and not pl["p"]) else (o.get("ty", {}).get("s") if "const" in o else None))
            if not any(t_ in ("u32", "usize", "u64", "i32", "i64", "u16", "u8", "isize") for t_ in tys if t_):
                continue
            if cmpst["span"].get("exp") and "assert" in str(cmpst["span"].get("s", "")):
                continue
            n_cmp += 1
            scaled = False
            fixed = []
            for o in (cmpst["r"]["a"], cmpst["r"]["b"]):
                pl = o.get("copy") or o.get("move")
                if pl is None:
                    if "const" in o:
                        fixed.append(o["const"])
                    continue
                sl = backward_slice(b, pl["l"])
                if any(c.endswith("::len") or "node_count" in c or "edge_count" in c for c in sl["calls"]):
                    scaled = True
                elif sl["consts"] and not sl["params"] and not sl["calls"] and not sl["places"]:
                    fixed.extend(sorted(sl["consts"]))
            R.ob("R19.2", "%s | numeric limit leading to an error is scaled by the size of the graph" % short(n),
                 scaled or not fixed,
                 detail="comparison against the fixed bound %s decides an error exit" % ", ".join(fixed),
                 site=A.site(cmpst))
    R.info["limit_comparisons"] = n_cmp
    R.explanation = ("Call graph (A7) over all %d crate-local bodies with resolved callees, closures and fn items: every strongly "
                     "connected component reachable from the public API is a native recursion whose depth is a path length of the "
                     "user's graph; plus a dataflow rule on every integer comparison that decides an error exit: its bound must "
                     "derive from a collection length, not only from constants." % len(g))
    R.assume("iteration counts and quadratic time are not limits in the sense of the property")


# =============================================================================================
# helpers for the protocol rules

def kinds(A):
    """signal kinds identified by what the code does with them (no names)"""
    if "_kinds" in A.__dict__:
        return A.__dict__["_kinds"]
    C = A.classes()
    H = A.handler_runs()
    sk, fk, ck = event_kinds(A)
    K = dict(success=sk, failure=fk, cleanup=ck)

    def pushes(kind, states, pred):
        res = None
        for s in states:
            ks = set()
            for v in H[(kind, s)].by_kind("push_signal"):
                if v["container"] != "queue" and pred(v):
                    ks |= set(v["kinds"])
            res = ks if res is None else (res & ks)
        return res or set()
    done = pushes(sk, C["Running"], lambda v: is_role(v["key"], "sigtarget"))
    if len(done) != 1:
        raise Imprecision("cannot identify the 'job done' signal (%r)" % done)
    K["done"] = list(done)[0]
    uf = pushes(fk, C["Running"], lambda v: nbr_of_self(v["key"], "Outgoing"))
    if len(uf) != 1:
        raise Imprecision("cannot identify the upstream-failure signal (%r)" % uf)
    K["upfail"] = list(uf)[0]
    cons = pushes(K["done"], C["Finished"], lambda v: nbr_of_self(v["key"], "Outgoing"))
    if len(cons) != 1:
        raise Imprecision("cannot identify the consider signal (%r)" % cons)
    K["consider"] = list(cons)[0]
    # abort: the kind queued by abort_remaining
    ab = A.evaluator_fn("abort_remaining")
    r = A.joined_run(ab)
    aks = set()
    for v in r.by_kind("extend"):
        e = v["elem"]
        if v["target"][0] == "self" and e is not None and e[0] == "adt" and e[1] == A.L.signal_ty:
            kf = adt_variants(e)[0][A.L.sig_kind_field]
            if kf[0] == "fin":
                aks |= set(kf[2])
    for v in r.by_kind("push_signal"):
        if v["container"] == "queue":
            aks |= set(v["kinds"])
    if len(aks) != 1:
        raise Imprecision("cannot identify the abort signal (%r)" % aks)
    K["abort"] = list(aks)[0]
    # ready: the kind whose handler enters the Ready class
    rk = set()
    for (k, s), run in H.items():
        for w in run.by_kind("write_state"):
            if is_role(w["key"], "sigtarget") and (set(w["to"]) & C["Ready"]):
                rk.add(k)
    if len(rk) != 1:
        raise Imprecision("cannot identify the ready signal (%r)" % rk)
    K["ready"] = list(rk)[0]
    A.__dict__["_kinds"] = K
    return K


def nbr_of_self(keyinfo, direction, parent_tag="sigtarget"):
    for r in keyinfo[1]:
        if isinstance(r, tuple) and r[0] == "nbr" and r[2] == direction:
            return True
    return False


def nbr_parent(keyinfo):
    for r in keyinfo[1]:
        if isinstance(r, tuple) and r[0] == "nbr":
            return r[1], r[2]
    return None, None


def forall_loop(A, fact, must_bb=None):
    """The key of `fact` was bound by Iterator::next in block sym[2] of the function the fact lies in.
    Check the ∀-neighbour idiom: that block heads a natural loop whose only regular exit is the
    exhausted-iterator edge, and (if must_bb is given) every path from the element edge back to the
    header passes through must_bb.  Returns (ok, reason)."""
    sym = fact["key"][0]
    if not (isinstance(sym, tuple) and len(sym) >= 3 and sym[0] == "b"):
        return False, "key is not bound by an iterator"
    if sym[1] != fact.get("fid"):
        return False, "key bound in another function activation"
    body = A.facts.body(fact["fn"])
    head = sym[2]
    loop = body.natural_loop(head)
    if len(loop) <= 1:
        return False, "binding block bb%d is not a loop header" % head
    errs = error_exit_blocks(A, body)
    # the block after the next() call switches on None/Some
    t = body.term(head)
    if t["k"] != "call" or t["t"] < 0:
        return False, "loop header is not an iterator step"
    sw = t["t"]
    exits = []
    for b in loop:
        for s_ in body.succs(b):
            if s_ not in loop:
                exits.append((b, s_))
    bad_exits = []
    rets = set(returns_of(body))
    for (b, s_) in exits:
        if b == sw:
            continue
        # leaving into a pure error exit is not an early exit of the iteration scheme
        if s_ in errs or not (rets & body.reachable(s_, errs)):
            continue
        bad_exits.append((b, s_))
    if bad_exits:
        return False, "loop over the neighbours can be left early (bb%d -> bb%d)" % bad_exits[0]
    if must_bb is not None:
        somes = [s_ for s_ in body.succs(sw) if s_ in loop]
        for s0 in somes:
            r = body.reachable(s0, {must_bb} | (errs - {s0}))
            if head in r and s0 != must_bb:
                return False, "an iteration can complete without passing bb%d" % must_bb
    return True, ""


def finishing_writes(A):
    """state writes from a not-finished into a finished state: [(t, from-set, to-set)]"""
    C = A.classes()
    out = []
    for t in A.transitions():
        w = t["w"]
        f = set(w["frm"]) - C["Finished"]
        to = set(w["to"]) & C["Finished"]
        if f and to:
            out.append((t, f, to))
    return out


def has_connected(A, run, w, kind_pred):
    for v in run.by_kind("push_signal"):
        if v["container"] == "queue":
            continue
        if kind_pred(v) and v["key"][0] == w["key"][0] and connected(A, w, v):
            return v
    return None


def removed_before(A, run, w):
    """was the job taken out of the graph (remove_node) on the path to this write?"""
    for v in run.by_kind("dag_remove_node"):
        if v["key"][0] == w["key"][0] and connected(A, w, v):
            return True
    return False


# =============================================================================================
@prop("C07")
def check_C07(A, R, tier):
    C = A.classes()
    K = kinds(A)
    H = A.handler_runs()
    T = A.transitions()
    UF = C["UpstreamFailed"]
    # R7.1 / R7.2: whoever is written Failed / UpstreamFailed tells every direct downstream
    n = 0
    for hk, label in ((K["failure"], "failure"), (K["upfail"], "upstream-failure")):
        for s in A.JS:
            run = H[(hk, s)]
            for w in run.by_kind("write_state"):
                if not is_role(w["key"], "sigtarget"):
                    continue
                if not (set(w["to"]) & (C["Failed"] | UF)):
                    continue
                n += 1
                em = [v for v in run.by_kind("push_signal") if v["container"] != "queue" and K["upfail"] in v["kinds"]
                      and nbr_parent(v["key"]) == (w["key"][0], "Outgoing")]
                ok, why = False, "no upstream-failure signal is sent to the direct downstreams"
                for v in em:
                    if set(v["kinds"]) != {K["upfail"]}:
                        continue
                    ok, why = forall_loop(A, v, must_bb=v["bb"])
                    if ok:
                        # the loop itself must be reached on every path from the write to the end of the handler
                        body = A.facts.body(v["fn"])
                        if v["fn"] == w["fn"] and v.get("fid") == w.get("fid"):
                            head = v["key"][0][2]
                            errs = error_exit_blocks(A, body)
                            sigsym = w["key"][0]
                            stop = {head} | errs
                            r = run.taken_reachable(w["fid"], w["bb"], stop - {w["bb"]})
                            outer = sigsym[2] if (isinstance(sigsym, tuple) and sigsym[0] == "b") else None
                            if (outer is not None and outer in r) or ("return" in r) or (set(returns_of(body)) & r):
                                ok, why = False, "the handler can end after the state write without visiting the downstreams"
                        break
                R.ob("R7.1" if label == "failure" else "R7.2",
                     "%s | %s handler | %s -> %s | every direct downstream is sent the upstream-failure signal"
                     % (short(w["fn"]), A.kname(hk), A.snames(w["frm"]), A.snames(w["to"])), ok, detail=why, site=A.site(w))
    R.floor("R7.1", "writes of a failed / upstream-failed state by the failure handlers", n, 4)
    # R7.3 typestate
    postrun = set(C["Running"])
    changed = True
    while changed:
        changed = False
        for t in T:
            w = t["w"]
            if w["frm"] & postrun:
                new = set(w["to"]) - postrun
                if new:
                    postrun |= new
                    changed = True
    R.info["states_after_start"] = A.snames(postrun)
    n = 0
    for t in T:
        w = t["w"]
        for f in sorted(w["frm"]):
            for to in sorted(w["to"]):
                if to in UF and f not in UF:
                    n += 1
                    started_only = f in postrun and not reachable_without_running(A, f)
                    R.ob("R7.3", tkey(A, t, f, to) + " | never for a job that was started", not started_only and f not in C["Running"] and f not in C["Ready"],
                         detail="a job that was offered / started / has finished executing is reported upstream-failed", site=A.site(w))
                    # R7.4: only the upstream-failure handler, acting on its own target
                    R.ob("R7.4", tkey(A, t, f, to) + " | only the upstream-failure handler reports upstream-failed",
                         t["ctx"][0] == "handler" and t["ctx"][1] == K["upfail"] and is_role(w["key"], "sigtarget"),
                         detail="an upstream-failed state is written outside the upstream-failure handler", site=A.site(w))
                    # R7.5: no re-classification after the job's completion was announced
                    R.ob("R7.5", tkey(A, t, f, to) + " | not after the job was announced finished", f not in C["Finished"],
                         detail="a job that had already finished (its downstreams were released) is re-classified as upstream-failed; "
                                "a downstream that has meanwhile been started receives the upstream-failure signal, which its handler "
                                "rejects with an internal error", site=A.site(w))
                if f in UF:
                    R.ob("R7.3", tkey(A, t, f, to) + " | upstream-failed is final", to in UF,
                         detail="an upstream-failed job changes state", site=A.site(w))
    R.floor("R7.3", "transitions into an upstream-failed state", n, 3)
    # R7.4b: the upstream-failure signal is only sent to direct downstreams of a job just written failed/upstream-failed
    n = 0
    for (k, s), run in H.items():
        for v in run.by_kind("push_signal"):
            if v["container"] == "queue" or K["upfail"] not in v["kinds"]:
                continue
            n += 1
            parent, d = nbr_parent(v["key"])
            okp = d == "Outgoing" and any(w["key"][0] == parent and (set(w["to"]) <= (C["Failed"] | UF)) and connected_fn(A, w, v)
                                          for w in run.by_kind("write_state"))
            R.ob("R7.4", "%s | %s handler | upstream-failure is signalled only to direct downstreams of a job just marked failed"
                 % (short(v["fn"]), A.kname(k)), okp and set(v["kinds"]) == {K["upfail"]},
                 detail="target roles: %s" % role_str(v["key"]), site=A.site(v))
    R.floor("R7.4", "upstream-failure emissions", n, 2)
    for name in list(EVENTS) + ["abort_remaining", "event_startup"]:
        b = A.evaluator_fn(name)
        runs = [A.startup_run()] if name == "event_startup" else ([A.joined_run(b)] if name == "abort_remaining" else list(A.event_runs(name).values()))
        bad = [v for r_ in runs for v in r_.by_kind("push_signal") if K["upfail"] in v["kinds"]]
        R.ob("R7.4", "%s | does not signal upstream failure itself" % name, not bad)
    # R7.6: a stale consider signal for a finished job is a no-op
    for s in sorted(C["Finished"]):
        run = H[(K["consider"], s)]
        eff = [e for e in effects(A, run) if e[0] not in ("opaque_call",)]
        eff = [e for e in eff if not (e[0] == "push_signal")]
        pushes = [v for v in run.by_kind("push_signal") if v["container"] != "queue"]
        R.ob("R7.6", "consider handler | %s | no effect on a finished job" % A.sname(s), not eff and not pushes,
             detail="; ".join("%s at %s" % (e[0], A.site(e[1])) for e in eff[:3]))
    R.explanation = ("Failure propagation and reporting as typestate/path rules over the extracted protocol: the failure and "
                     "upstream-failure handlers send the upstream-failure signal to every direct downstream (∀-neighbour loop, "
                     "must-emit, no early exit); upstream-failed states are written only by that handler on its own target, only "
                     "from never-offered states, and are final; the signal is sent only to direct downstreams of a job just marked "
                     "failed.  Not decided: that jobs without failed ancestors behave exactly as in the failure-free evaluation.")
    R.assume("the twin-run clause (\"executed or skipped exactly as without failures\") is not decided statically")


def connected_fn(A, w, v):
    return connected(A, w, v)


def reachable_without_running(A, state):
    """can `state` be reached from Init without passing a Running state?"""
    C = A.classes()
    if "_ns" not in A.__dict__:
        ns = set(C["Init"])
        changed = True
        while changed:
            changed = False
            for t in A.transitions():
                w = t["w"]
                if w["frm"] & ns:
                    new = set(w["to"]) - ns - C["Running"]
                    if new:
                        ns |= new
                        changed = True
        A.__dict__["_ns"] = ns
    return state in A.__dict__["_ns"]
