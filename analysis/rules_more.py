"""Rules for the remaining properties (registered in REGISTRY at the end)."""
import os, sys
import mir as M
from domain import fin, adt_variants, TOP, BOOL
from interp import Imprecision
from rules_protocol import (deferred_clear, short, effects, set_fields, event_kinds, sig_writes, is_role, role_str, elem_is_key, connected,
                            phase, tkey, EVENTS, pairing)

REGISTRY = {}


def prop(pid):
    def deco(f):
        REGISTRY[pid] = f
        return f
    return deco


# =============================================================================================
# A7: call graph

def call_graph(A):
    g = {}
    for n in A.facts.order:
        b = A.facts.bodies[n]
        if b.kind == "Promoted":
            continue
        es = g.setdefault(n, set())
        for blk in b.blocks:
            if blk["cleanup"]:
                continue
            for st in blk["stmts"]:
                if st["k"] == "assign" and st["r"]["k"] == "agg" and "closure" in st["r"]["kind"]:
                    es.add(st["r"]["kind"]["closure"])
                # fn items passed as values
                if st["k"] == "assign":
                    for o in operands_of(st["r"]):
                        if "fn" in o and A.facts.body(o.get("resolved") or o["fn"]) is not None:
                            es.add(o.get("resolved") or o["fn"])
            t = blk["term"]["t"]
            if t["k"] == "call":
                c = M.callee_of(t)
                if c is not None:
                    nm = c[1] or c[0]
                    if A.facts.body(nm) is not None:
                        es.add(nm)
                for o in t["args"]:
                    if "fn" in o and A.facts.body(o.get("resolved") or o["fn"]) is not None:
                        es.add(o.get("resolved") or o["fn"])
    return g


def operands_of(r):
    k = r["k"]
    if k in ("use", "cast", "unop"):
        return [r["o"]]
    if k == "binop":
        return [r["a"], r["b"]]
    if k == "agg":
        return list(r["fields"])
    return []


def sccs(g):
    index = {}
    low = {}
    onstack = set()
    stack = []
    out = []
    counter = [0]
    import sys
    sys.setrecursionlimit(10000)

    def strong(v):
        index[v] = low[v] = counter[0]
        counter[0] += 1
        stack.append(v)
        onstack.add(v)
        for w in g.get(v, ()):
            if w not in index:
                strong(w)
                low[v] = min(low[v], low[w])
            elif w in onstack:
                low[v] = min(low[v], index[w])
        if low[v] == index[v]:
            comp = []
            while True:
                w = stack.pop()
                onstack.discard(w)
                comp.append(w)
                if w == v:
                    break
            out.append(comp)
    for v in g:
        if v not in index:
            strong(v)
    return out


def api_roots(A):
    roots = [b.name for b in A.evaluator_methods() if b.vis == "Public"]
    for n in A.facts.order:
        if "PyPPG2Evaluator" in n and A.facts.bodies[n].kind == "AssocFn":
            roots.append(n)
    return roots


def reachable_from(g, roots):
    seen = set()
    st = list(roots)
    while st:
        x = st.pop()
        if x in seen:
            continue
        seen.add(x)
        st.extend(g.get(x, ()))
    return seen


def backward_slice(body, local, limit=200):
    """locals and 'sources' (constants, calls, params) the value of `local` may derive from (flow-insensitive)"""
    defs = {}
    for blk in body.blocks:
        if blk["cleanup"]:
            continue
        for st in blk["stmts"]:
            if st["k"] == "assign" and not st["p"]["p"]:
                defs.setdefault(st["p"]["l"], []).append(("rv", st["r"]))
        t = blk["term"]["t"]
        if t["k"] == "call" and not t["dest"]["p"]:
            defs.setdefault(t["dest"]["l"], []).append(("call", t))
    seen = set()
    src = {"consts": set(), "calls": set(), "params": set(), "places": set()}
    st = [local]
    while st and len(seen) < limit:
        l = st.pop()
        if l in seen:
            continue
        seen.add(l)
        if 1 <= l <= body.arg_count:
            src["params"].add(l)
        for kind, d in defs.get(l, ()):
            if kind == "call":
                c = M.callee_of(d)
                src["calls"].add((c[1] or c[0]) if c else "<indirect>")
                for o in d["args"]:
                    p = o.get("copy") or o.get("move")
                    if p is not None:
                        st.append(p["l"])
            else:
                for o in operands_of(d) if d["k"] != "ref" else []:
                    p = o.get("copy") or o.get("move")
                    if p is not None:
                        st.append(p["l"])
                        if p["p"]:
                            src["places"].add(M.fmt_place(p))
                    elif "const" in o and "fn" not in o:
                        src["consts"].add(o["const"])
                if d["k"] == "ref":
                    st.append(d["p"]["l"])
                    if d["p"]["p"]:
                        src["places"].add(M.fmt_place(d["p"]))
                if d["k"] in ("discr",):
                    st.append(d["p"]["l"])
    return src


def deep_slice(A, body, local, g_callers, depth=3, seen=None):
    """backward slice that follows integer parameters into the argument expressions of the local callers"""
    sl = backward_slice(body, local)
    out = dict(consts=set(sl["consts"]), calls=set(sl["calls"]), places=set(sl["places"]), unresolved_params=set())
    seen = seen or set()
    for p in sl["params"]:
        if (body.name, p) in seen or depth <= 0:
            out["unresolved_params"].add((short(body.name), p))
            continue
        seen.add((body.name, p))
        callers = g_callers.get(body.name, [])
        if not callers:
            out["unresolved_params"].add((short(body.name), p))
        for (cb, blk) in callers:
            t = cb.blocks[blk]["term"]["t"]
            if p - 1 >= len(t["args"]):
                continue
            o = t["args"][p - 1]
            pl = o.get("copy") or o.get("move")
            if pl is None:
                if "const" in o and "fn" not in o:
                    out["consts"].add(o["const"])
                continue
            sub = deep_slice(A, cb, pl["l"], g_callers, depth - 1, seen)
            for k in ("consts", "calls", "places", "unresolved_params"):
                out[k] |= sub[k]
    return out


def callers_index(A):
    idx = {}
    for n in A.facts.order:
        b = A.facts.bodies[n]
        if b.kind == "Promoted":
            continue
        for blk in b.blocks:
            if blk["cleanup"]:
                continue
            t = blk["term"]["t"]
            if t["k"] == "call":
                c = M.callee_of(t)
                if c is not None:
                    nm = c[1] or c[0]
                    if A.facts.body(nm) is not None:
                        idx.setdefault(nm, []).append((b, blk["i"]))
    return idx


# graph-library entry points whose implementation was read and found to be iterative (explicit stack / queue):
# petgraph 0.6 algo::toposort uses a DfsPostOrder-style explicit stack.  Everything else from petgraph::algo /
# petgraph::visit is treated as of unknown stack behaviour (e.g. is_cyclic_directed -> recursive depth_first_search).
VETTED_GRAPH_ALGOS = {"petgraph::algo::toposort"}


def error_exit_blocks(A, body):
    """blocks that construct the error type (directly or through a helper that returns it) or enter a panic"""
    out = set()
    for blk in body.blocks:
        if blk["cleanup"]:
            continue
        for st in blk["stmts"]:
            if st["k"] == "assign" and st["r"]["k"] == "agg" and st["r"]["kind"].get("adt") == A.L.error_ty:
                out.add(blk["i"])
        t = blk["term"]["t"]
        if t["k"] == "call" and t["t"] < 0:
            out.add(blk["i"])
        elif t["k"] == "call":
            cb = A.facts.body(M.callee_name(t) or "")
            if cb is not None and cb.locals[0].get("adt") == A.L.error_ty:
                out.add(blk["i"])
    return out


def returns_of(body):
    return [blk["i"] for blk in body.blocks if not blk["cleanup"] and blk["term"]["t"]["k"] == "return"]


def bound_sources(A, body, local, depth=0, seen=None):
    """leaf sources of an integer value (flow-insensitive, through arithmetic and crate-local helper functions):
    ('const', c) | ('len', self-field index or None) | ('count',) | ('param', i) | ('call', name) | ('place', text)"""
    seen = seen if seen is not None else set()
    out = set()
    key_ = (body.name, local)
    if key_ in seen or depth > 3:
        return out
    seen.add(key_)
    if 1 <= local <= body.arg_count:
        out.add(("param", local))
    for blk in body.blocks:
        if blk["cleanup"]:
            continue
        for st in blk["stmts"]:
            if st["k"] == "assign" and not st["p"]["p"] and st["p"]["l"] == local:
                r = st["r"]
                if r["k"] in ("ref", "rawptr", "discr", "len"):
                    out.add(("place", M.fmt_place(r["p"])))
                    continue
                for o in operands_of(r):
                    pl = o.get("copy") or o.get("move")
                    if pl is not None:
                        if pl["p"] and not (all(e["k"] == "field" for e in pl["p"]) and pl["l"] > body.arg_count):
                            out.add(("place", M.fmt_place(pl)))
                        else:
                            # a field of a local tuple (the value half of a checked arithmetic result): follow the local
                            out |= bound_sources(A, body, pl["l"], depth, seen)
                    elif "const" in o and "fn" not in o:
                        out.add(("const", o["const"]))
        t = blk["term"]["t"]
        if t["k"] == "call" and not t["dest"]["p"] and t["dest"]["l"] == local:
            c = M.callee_of(t)
            gen = c[0] if c else "<indirect>"
            nm = (c[1] or c[0]) if c else "<indirect>"
            if gen.endswith("::len"):
                # receiver: a reference to a field of self?
                fld = None
                a0 = t["args"][0]
                pl = a0.get("move") or a0.get("copy")
                hops = 0
                while pl is not None and hops < 6:
                    hops += 1
                    src = None
                    for blk2 in body.blocks:
                        for st2 in blk2["stmts"]:
                            if st2["k"] == "assign" and not st2["p"]["p"] and st2["p"]["l"] == pl["l"]:
                                r2 = st2["r"]
                                if r2["k"] in ("ref", "rawptr"):
                                    src = ("place", r2["p"])
                                elif r2["k"] == "use":
                                    q = r2["o"].get("move") or r2["o"].get("copy")
                                    if q is not None:
                                        src = ("place", q)
                        t2 = blk2["term"]["t"]
                        if t2["k"] == "call" and not t2["dest"]["p"] and t2["dest"]["l"] == pl["l"] and t2["args"]:
                            # deref / as_slice wrappers: follow the first argument
                            q = t2["args"][0].get("move") or t2["args"][0].get("copy")
                            if q is not None:
                                src = ("place", q)
                    if src is None:
                        break
                    q = src[1]
                    fields = [e for e in q["p"] if e["k"] == "field"]
                    if q["l"] == 1 and fields:
                        fld = fields[0]["i"]
                        break
                    pl = {"l": q["l"], "p": []}
                out.add(("len", fld))
            elif "node_count" in gen or "edge_count" in gen:
                out.add(("count",))
            elif any(gen.endswith(x) for x in ("::saturating_add", "::saturating_mul", "::checked_add", "::checked_mul", "::wrapping_add",
                                               "::wrapping_mul", "::max", "::min", "::unwrap_or", "::unwrap", "From<T>>::from", "::into",
                                               "TryFrom<T>>::try_from", "::try_into")):
                for a_ in t["args"]:
                    pl = a_.get("move") or a_.get("copy")
                    if pl is not None and not pl["p"]:
                        out |= bound_sources(A, body, pl["l"], depth, seen)
                    elif "const" in a_ and "fn" not in a_:
                        out.add(("const", a_["const"]))
            else:
                cb = A.facts.body(nm)
                if cb is not None and cb.kind in ("Fn", "AssocFn") and depth < 3:
                    sub = set()
                    for rb in cb.blocks:
                        pass
                    sub = bound_sources(A, cb, 0, depth + 1, seen)
                    # parameters of the helper: `self` is fine, anything else is followed no further
                    out |= set(x for x in sub if x[0] != "param") | set(("call", short(nm)) for x in sub if x[0] == "param" and x[1] != 1)
                else:
                    out.add(("call", nm))
    return out


def bound_sources_deep(A, body, local, g_callers, depth=3, seen=None):
    """bound_sources with integer parameters followed into the argument expressions of the local callers"""
    seen = seen if seen is not None else set()
    out = set()
    for x in bound_sources(A, body, local):
        if x[0] != "param" or x[1] == 1 and body.locals[1]["s"].lstrip("&").replace("mut ", "").startswith(A.L.evaluator.split("<")[0]):
            out.add(x)
            continue
        callers = g_callers.get(body.name, [])
        if (body.name, x[1]) in seen or depth <= 0 or not callers:
            out.add(x)
            continue
        seen.add((body.name, x[1]))
        for (cb, blk) in callers:
            t = cb.blocks[blk]["term"]["t"]
            if x[1] - 1 >= len(t["args"]):
                continue
            o = t["args"][x[1] - 1]
            pl = o.get("copy") or o.get("move")
            if pl is None:
                if "const" in o and "fn" not in o:
                    out.add(("const", o["const"]))
                continue
            if pl["p"]:
                out.add(("place", M.fmt_place(pl)))
                continue
            out |= bound_sources_deep(A, cb, pl["l"], g_callers, depth - 1, seen)
    return out


def graph_removers(A, g):
    """functions that take nodes out of the graph"""
    return set(n for n in g if any((M.callee_of(blk["term"]["t"]) or ("",))[0].endswith("::remove_node")
                                   for blk in (A.facts.bodies[n].blocks if n in A.facts.bodies else [])
                                   if not blk["cleanup"] and blk["term"]["t"]["k"] == "call"))


def pruning_order_violations(A, g, wn, what):
    """function `wn` relies on the graph having been pruned: it is reachable neither from a function that removes nodes nor, in a
    function that calls both, from a point the pruning call does not dominate.  -> list of reasons"""
    removers = graph_removers(A, g)
    reaches_w = set(x for x in g if wn in reachable_from(g, [x]))
    reaches_p = set(x for x in g if removers & reachable_from(g, [x]))
    bad = []
    for pf in sorted(removers):
        if pf in reaches_w:
            bad.append("%s takes jobs out of the graph and runs %s while doing so" % (short(pf), what))
    # the order of calls is judged inside the evaluator; in which order a driver (tests, the python wrappers) makes its API calls
    # is its own business - the API guards itself with the start status and the job states (C20, R17.6)
    evm = set(b.name for b in A.evaluator_methods())
    inside = lambda n_: n_ in evm or any(n_.startswith(m_ + "::{closure") for m_ in evm)
    for fn_ in sorted(reaches_w & reaches_p):
        fb = A.facts.bodies.get(fn_)
        if fb is None or fn_ in removers or not inside(fn_):
            continue
        ws, ps = [], []
        for blk in fb.blocks:
            t = blk["term"]["t"]
            if blk["cleanup"] or t["k"] != "call":
                continue
            c = M.callee_of(t)
            tgt = set()
            if c is not None:
                tgt = set(x for x in g.get(fn_, ()) if x in ((c[1] or c[0]), c[0]))
                # closures / fn items passed as arguments run inside the call
                for a_ in t["args"]:
                    if "const" in a_ and "fn" in a_:
                        tgt.add(a_.get("resolved") or a_["fn"])
            if any(x in reaches_w or x == wn for x in tgt):
                ws.append(blk["i"])
            if any(x in reaches_p for x in tgt):
                ps.append(blk["i"])
        for w_ in ws:
            for p_ in ps:
                if w_ == p_:
                    continue        # one call that does both: the order is decided (and judged) in the callee
                if not fb.dominates(p_, w_) or p_ in fb.reachable(w_, set()):
                    bad.append("%s can run %s (bb%d) before the pruning (bb%d) is complete" % (short(fn_), what, w_, p_))
    return bad


def receiver_local(body, t):
    """the local collection a method is called on: chases `_t = &mut X` / `_t = &X` / copies in the calling block and before"""
    if not t["args"]:
        return None
    a0 = t["args"][0]
    pl = a0.get("move") or a0.get("copy")
    seen = 0
    while pl is not None and seen < 6:
        seen += 1
        if pl["p"]:
            # (*x).field or *x: take the base local
            l = pl["l"]
        else:
            l = pl["l"]
        # find the single assignment to l
        src = None
        for blk in body.blocks:
            for st in blk["stmts"]:
                if st["k"] == "assign" and not st["p"]["p"] and st["p"]["l"] == l:
                    r = st["r"]
                    if r["k"] in ("ref", "rawptr"):
                        src = r["p"]
                    elif r["k"] == "use":
                        src = r["o"].get("move") or r["o"].get("copy")
        if src is None:
            # result of a deref-like call (`Deref::deref`, `as_slice`, `iter`, `borrow`): continue with its receiver
            for blk in body.blocks:
                t2 = blk["term"]["t"]
                if t2["k"] == "call" and not t2["dest"]["p"] and t2["dest"]["l"] == l and t2["args"]:
                    g2 = (M.callee_of(t2) or ("",))[0]
                    if any(g2.endswith(x) for x in ("::deref", "::deref_mut", "::as_slice", "::as_mut_slice", "::iter", "::iter_mut", "::borrow",
                                                    "::borrow_mut", "::into_iter", "::as_ref", "::as_mut")):
                        src = t2["args"][0].get("move") or t2["args"][0].get("copy")
            if src is None:
                return l
        if body.local_names.get(src["l"]) is not None and not [e for e in src["p"] if e["k"] != "deref"]:
            return src["l"]
        pl = src
    return pl["l"] if pl is not None else None


@prop("C19")
def check_C19(A, R, tier):
    g = call_graph(A)
    roots = api_roots(A)
    R.floor("R19.1", "public API roots", len(roots), 10)
    reach = reachable_from(g, roots)
    R.info["call_graph"] = dict(functions=len(g), edges=sum(len(v) for v in g.values()), reachable_from_api=len(reach))
    n_cyc = 0
    comps = sccs(g)
    for comp in comps:
        cyc = len(comp) > 1 or (comp[0] in g.get(comp[0], ()))
        if not cyc:
            continue
        if not (set(comp) & reach):
            continue
        if all(A.facts.bodies[c].derived for c in comp):
            continue
        n_cyc += 1
        names = sorted(short(c) for c in comp)
        R.ob("R19.1", "recursive cycle: %s" % ", ".join(names), False,
             detail="native recursion reachable from the public API: its depth is a path length of the user's graph, so the "
                    "stack bounds the graph depth", site=A.facts.bodies[comp[0]].span["s"])
    for n in sorted(reach):
        b = A.facts.bodies.get(n)
        if b is None or b.kind == "Promoted" or b.derived:
            continue
        # one obligation per reachable function: it is not on a cycle
        on_cycle = any((n in comp) and (len(comp) > 1 or n in g.get(n, ())) for comp in comps)
        if not on_cycle:
            R.ob("R19.1", "%s is not recursive" % short(n), True)
    # R19.3: graph-library algorithms reachable from the API are from the vetted (iterative) list
    n_alg = 0
    for n in sorted(reach):
        b = A.facts.bodies.get(n)
        if b is None or b.kind == "Promoted":
            continue
        for blk in b.blocks:
            if blk["cleanup"]:
                continue
            t = blk["term"]["t"]
            if t["k"] == "call":
                nm = M.callee_name(t) or ""
                gen = M.callee_of(t)[0] if M.callee_of(t) else ""
                if gen.startswith("petgraph::algo::") or gen.startswith("petgraph::visit::") or nm.startswith("petgraph::algo::"):
                    n_alg += 1
                    R.ob("R19.3", "%s | calls %s | graph algorithm with vetted (iterative) implementation" % (short(n), gen),
                         gen in VETTED_GRAPH_ALGOS,
                         detail="%s is not on the list of graph-library algorithms whose implementation was checked to use an explicit "
                                "stack; a recursive traversal overflows the native stack on deep graphs" % gen,
                         site=blk["term"]["span"]["s"].split(": ")[0])
    R.floor("R19.3", "graph-library algorithm calls", n_alg, 1)
    # R19.2: fixed numeric limits that lead to an error
    cidx = callers_index(A)
    n_cmp = 0
    for n in sorted(reach):
        b = A.facts.bodies.get(n)
        if b is None or b.kind == "Promoted" or b.derived:
            continue
        errs = error_exit_blocks(A, b)
        if not errs:
            continue
        rets = returns_of(b)
        for blk in b.blocks:
            if blk["cleanup"]:
                continue
            t = blk["term"]["t"]
            if t["k"] != "switch":
                continue
            p = t["d"].get("copy") or t["d"].get("move")
            if p is None or p["p"]:
                continue
            # find the defining comparison in this block
            cmpst = None
            for st in blk["stmts"]:
                if st["k"] == "assign" and not st["p"]["p"] and st["p"]["l"] == p["l"] and st["r"]["k"] == "binop" \
                        and st["r"]["op"] in ("Gt", "Ge", "Lt", "Le"):
                    cmpst = st
            if cmpst is None:
                continue
            # does one successor inevitably end in an error?
            succs = b.succs(blk["i"])
            err_succ = []
            for s_ in succs:
                r = b.reachable(s_, errs - {s_}) if s_ not in errs else set()
                if not (set(rets) & r):
                    others = [x for x in succs if x != s_]
                    err_succ.append(s_)
            if not err_succ or len(err_succ) == len(succs):
                continue
            # integer comparison operands
            tys = []
            for o in (cmpst["r"]["a"], cmpst["r"]["b"]):
                pl = o.get("copy") or o.get("move")
                tys.append(b.locals[pl["l"]]["s"] if (pl is not None and not pl["p"]) else (o.get("ty", {}).get("s") if "const" in o else None))
            if not any(t_ in ("u32", "usize", "u64", "i32", "i64", "u16", "u8", "isize") for t_ in tys if t_):
                continue
            if cmpst["span"].get("exp") and "assert" in str(cmpst["span"].get("s", "")):
                continue
            n_cmp += 1
            sides = []
            shrinking = []
            for o in (cmpst["r"]["a"], cmpst["r"]["b"]):
                pl = o.get("copy") or o.get("move")
                if pl is None:
                    sides.append(dict(kind="const", consts={o.get("const")}, calls=set()))
                    continue
                sl = deep_slice(A, b, pl["l"], cidx)
                # (counting the elements of an iterator is a size too: `jobs.iter().filter(..).count()`)
                sized = any(c.endswith("::len") or "node_count" in c or "edge_count" in c or (c.endswith("::count") and "Iterator" in c) for c in sl["calls"])
                if sized:
                    # ... the bound must scale with the number of jobs: lengths of the jobs vector / the id map (what add_node fills)
                    # or the graph's node count, combined with constants only - not the length of a working list that shrinks
                    # while the evaluation proceeds, nor a value chosen by a closure or an unknown call
                    bs = bound_sources_deep(A, b, pl["l"], cidx)
                    bad_src = [x for x in bs if (x[0] == "len" and x[1] not in (A.L.jobs_field, A.L.idmap_field)) or x[0] == "call"]
                    if bad_src:
                        sized = False
                        shrinking.append(sorted(str(x) for x in bad_src))
                if sized:
                    kind = "sized"
                elif not sl["calls"] and not sl["places"] and not sl["unresolved_params"]:
                    kind = "const"
                else:
                    kind = "other"
                sides.append(dict(kind=kind, consts=sl["consts"], calls=sl["calls"]))
            ks = sorted(x["kind"] for x in sides)
            if os.environ.get("VERIF_DBG"):
                print("R19.2", short(n), ks, sides, shrinking, file=sys.stderr)
            okc = True
            why = ""
            if shrinking:
                okc, why = False, ("a side of the comparison derives from %s, not only from the number of jobs: a working list that changes "
                                   "its length while the evaluation proceeds (or a value picked elsewhere) neither counts rounds nor scales "
                                   "with the graph" % shrinking[0])
            if ks == ["const", "const"]:
                okc, why = False, "both sides derive from constants only (%s): a fixed limit decides an error exit" % sorted(
                    c for x in sides for c in x["consts"] if c)
            elif ks == ["sized", "sized"]:
                okc, why = False, ("both the counter and its bound depend on collection sizes (%s): the counter no longer counts "
                                   "rounds, so the limit is not a bound that scales with the graph"
                                   % sorted(short(c) for x in sides for c in x["calls"] if c.endswith("::len")))
            R.ob("R19.2", "%s | a numeric limit that decides an error exit compares a constant-step counter with a size-scaled bound" % short(n),
                 okc, detail=why, site=A.site(cmpst))
    R.info["limit_comparisons"] = n_cmp
    # R19.6: no size threshold: a branch on 'collection size vs. constant > 1' makes big projects take code that small ones (and
    # the tests) never reach - the two sides would have to be proven equivalent, which nothing here does
    n_thr = 0
    for n in sorted(reach):
        b = A.facts.bodies.get(n)
        if b is None or b.kind == "Promoted" or b.derived:
            continue
        for blk in b.blocks:
            if blk["cleanup"]:
                continue
            t = blk["term"]["t"]
            if t["k"] != "switch":
                continue
            p = t["d"].get("copy") or t["d"].get("move")
            if p is None or p["p"]:
                continue
            for st in blk["stmts"]:
                if not (st["k"] == "assign" and not st["p"]["p"] and st["p"]["l"] == p["l"] and st["r"]["k"] == "binop"
                        and st["r"]["op"] in ("Gt", "Ge", "Lt", "Le")):
                    continue
                if st["span"].get("exp"):
                    continue        # comparisons inside macro expansions (assertions, formatting)
                cval, other = None, None
                for o, o2 in ((st["r"]["a"], st["r"]["b"]), (st["r"]["b"], st["r"]["a"])):
                    if "const" in o and "int" in o:
                        try:
                            cval = int(o["int"], 16)
                        except ValueError:
                            cval = None
                        other = o2
                if cval is None or cval <= 1 or other is None:
                    continue
                pl = other.get("copy") or other.get("move")
                if pl is None or pl["p"]:
                    continue
                sl = backward_slice(b, pl["l"])
                sized = [c for c in sl["calls"] if c.endswith("::len") or "node_count" in c or "edge_count" in c
                         or (c.endswith("::count") and "Iterator" in c)]
                if not sized or sl["consts"] - {None}:
                    # (arithmetic with other constants: e.g. a length compared after scaling - judged by R19.2 where it matters)
                    if not sized:
                        continue
                n_thr += 1
                R.ob("R19.6", "%s | a collection size is compared with the constant %d | no size threshold selects the code that runs"
                     % (short(n), cval), False,
                     detail="beyond %d elements (%s) the code takes another branch: behaviour that only projects of that size exercise"
                            % (cval, ", ".join(sorted(short(c) for c in sized))), site=A.site(st))
    R.info["size_thresholds"] = n_thr
    # R19.7 (= R2.8): handing 'needed' up a chain of Ephemerals happens in one walk that reaches every unfinished Ephemeral - done
    # level by level over several signal rounds instead, the top of a chain of three or more is decided before the mark arrives
    from rules_c04 import rule_walk_reaches_every_ephemeral
    rule_walk_reaches_every_ephemeral(A, R, "R19.7")
    # R19.4: a worklist walk over the graph (take an element out of a local collection, put its neighbours in) remembers what it
    # has visited; without that its work is bounded by the number of *paths*, which is exponential in the depth of layered graphs
    n_walk = 0
    searches = []
    for n in sorted(reach):
        b = A.facts.bodies.get(n)
        if b is None or b.kind == "Promoted" or b.derived:
            continue
        for h in sorted(set(h for (_, h) in b.back_edges())):
            loop = b.natural_loop(h)
            takes, puts, nbrs, marks = {}, {}, [], []
            for bi in loop:
                blk = b.blocks[bi]
                if blk["cleanup"]:
                    continue
                t = blk["term"]["t"]
                if t["k"] != "call":
                    continue
                gen = (M.callee_of(t) or ("",))[0]
                recv = receiver_local(b, t)
                if gen.endswith("Vec::<T, A>::pop") or gen.endswith("VecDeque::<T, A>::pop_front") or gen.endswith("VecDeque::<T, A>::pop_back") \
                        or gen.endswith("impl [T]>::last_mut") or gen.endswith("impl [T]>::last"):
                    takes.setdefault(recv, []).append(blk)
                elif gen.endswith("Vec::<T, A>::push") or gen.endswith("VecDeque::<T, A>::push_back") or gen.endswith("VecDeque::<T, A>::push_front") \
                        or gen.endswith("as std::iter::Extend<T>>::extend") or gen == "std::iter::Extend::extend":
                    puts.setdefault(recv, []).append(blk)
                elif gen.endswith("::neighbors_directed") or gen.endswith("GraphMap::<N, E, Ty>::neighbors") or gen.endswith("::edges_directed"):
                    nbrs.append(blk)
                elif gen.endswith("HashSet::<T, S, A>::insert") or gen.endswith("HashSet::<T, S, A>::contains") \
                        or gen.endswith("HashMap::<K, V, S, A>::insert") or gen.endswith("HashMap::<K, V, S, A>::contains_key") \
                        or gen.endswith("BTreeSet::<T, A>::insert") or gen.endswith("HashMap::<K, V, S, A>::entry"):
                    marks.append(blk)
                elif (gen.endswith("IndexMut<I>>::index_mut") or gen.endswith("IndexMut::index_mut") or gen.endswith("Index<I>>::index")
                      or gen.endswith("Index::index") or ((M.callee_of(t) or ("", ""))[1] or "").endswith("::index_mut")) \
                        and "bool" in (b.locals[t["dest"]["l"]]["s"] if not t["dest"]["p"] else ""):
                    marks.append(blk)       # a table of flags indexed by job: the test `seen[job]` / the store `seen[job] = true`
            work = [l for l in takes if l is not None and l in puts]
            if not work or not nbrs:
                continue
            # a *search* that stops at the first hit (a regular exit out of the middle of the loop) is not judged: how far it gets
            # depends on invariants of the graph; an exhaustive walk (the loop ends only when the worklist is empty) is
            hdr_exits = set()
            for t_blk in [x for v_ in takes.values() for x in v_]:
                hdr_exits.add(t_blk["i"])
                hdr_exits.add(t_blk["term"]["t"]["t"])
            errs_ = error_exit_blocks(A, b) | residual_blocks(b)
            early = [(x, s_) for x in loop for s_ in b.succs(x) if s_ not in loop and x not in hdr_exits and s_ not in errs_
                     and b.term(s_)["k"] != "unreachable"]
            # the visited-set test must guard what is put into the worklist: it dominates every put inside the loop
            guarded = bool(marks)
            for l_ in work:
                for pb in puts[l_]:
                    if not any(b.dominates(mb["i"], pb["i"]) for mb in marks):
                        guarded = False
            if early:
                if not guarded:
                    searches.append((n, h, takes[work[0]][0]["term"]["span"]["s"].split(": ")[0]))
                continue
            n_walk += 1
            R.ob("R19.4", "%s | worklist walk over graph neighbours (loop bb%d) | keeps a set of visited jobs" % (short(n), h), guarded,
                 detail="every path to a job is walked separately: in a layered graph (each job depending on several jobs of the previous "
                        "layer) the walk takes time exponential in the number of layers - a few dozen jobs are enough to hang the evaluation",
                 site=takes[work[0]][0]["term"]["span"]["s"].split(": ")[0])
    R.info["worklist_walks"] = n_walk
    # ... a *search* without a visited set ends early only because of what the graph looks like: below every Ephemeral that is
    # still in the graph there is a job of another kind (what the pruning at startup establishes), so the first path walked down
    # ends the search.  It therefore may not run before the pruning is complete: neither from the pruning itself nor in front of it.
    removers = graph_removers(A, g)
    R.info["graph_pruning_functions"] = sorted(short(x) for x in removers)
    for (wn, h, site) in searches:
        bad = pruning_order_violations(A, g, wn, "the search")
        R.ob("R19.4", "%s | search over graph neighbours without a visited set (loop bb%d) | runs only after unconsumed Ephemerals were pruned"
             % (short(wn), h), not bad and bool(removers),
             detail="; ".join(bad[:3]) or "no function that takes jobs out of the graph was found",
             site=site)
    R.info["unguarded_searches"] = len(searches)
    # R19.5: no constant cut-off on how much of a graph-sized collection is looked at
    n_cut = 0
    CUTS = ("std::iter::Iterator::take", "std::iter::Iterator::skip", "std::iter::Iterator::step_by", "std::iter::Iterator::nth",
            "std::vec::Vec::<T, A>::truncate", "std::collections::VecDeque::<T, A>::truncate", "core::slice::<impl [T]>::chunks",
            "core::slice::<impl [T]>::windows", "core::slice::<impl [T]>::split_at", "std::vec::Vec::<T, A>::split_off")
    for n in sorted(reach):
        b = A.facts.bodies.get(n)
        if b is None or b.kind == "Promoted" or b.derived:
            continue
        for blk in b.blocks:
            if blk["cleanup"]:
                continue
            t = blk["term"]["t"]
            if t["k"] != "call":
                continue
            gen = (M.callee_of(t) or ("",))[0]
            if gen not in CUTS or len(t["args"]) < 2:
                continue
            a1 = t["args"][1]
            cval = None
            if "const" in a1 and "int" in a1:
                cval = int(a1["int"], 16)
            else:
                pl = a1.get("copy") or a1.get("move")
                if pl is not None and not pl["p"]:
                    sl = backward_slice(b, pl["l"])
                    if not sl["calls"] and not sl["places"] and not sl["params"] and len(sl["consts"]) >= 1:
                        try:
                            cval = max(int(str(c), 0) for c in sl["consts"] if c is not None and str(c).lstrip("-").isdigit())
                        except ValueError:
                            cval = None
            if cval is None or cval <= 1:
                continue        # first element / skip the head: structural idioms, not limits
            n_cut += 1
            R.ob("R19.5", "%s | %s(%d) | no constant cut-off on a collection whose size scales with the graph" % (short(n), gen.split("::")[-1], cval),
                 False, detail="beyond %d elements the code behaves differently: an internal limit that only large graphs hit" % cval,
                 site=blk["term"]["span"]["s"].split(": ")[0])
    R.info["constant_cut_offs"] = n_cut
    R.explanation = ("Call graph (A7) over all %d crate-local bodies with resolved callees, closures and fn items: every strongly "
                     "connected component reachable from the public API is a native recursion whose depth is a path length of the "
                     "user's graph; plus a dataflow rule on every integer comparison that decides an error exit: its bound must "
                     "derive from a collection length, not only from constants." % len(g))
    R.assume("iteration counts and quadratic time are not limits in the sense of the property")


# =============================================================================================
# helpers for the protocol rules

def kinds(A):
    """signal kinds identified by what the code does with them (no names)"""
    if "_kinds" in A.__dict__:
        return A.__dict__["_kinds"]
    C = A.classes()
    H = A.handler_runs()
    sk, fk, ck = event_kinds(A)
    K = dict(success=sk, failure=fk, cleanup=ck)

    def pushes(kind, states, pred):
        res = None
        for s in states:
            ks = set()
            for v in H[(kind, s)].by_kind("push_signal"):
                if v["container"] != "queue" and pred(v):
                    ks |= set(v["kinds"])
            res = ks if res is None else (res & ks)
        return res or set()
    done = pushes(sk, C["Running"], lambda v: is_role(v["key"], "sigtarget"))
    if len(done) != 1:
        raise Imprecision("cannot identify the 'job done' signal (%r)" % done)
    K["done"] = list(done)[0]
    uf = pushes(fk, C["Running"], lambda v: nbr_of_self(v["key"], "Outgoing", via=True))
    if len(uf) != 1:
        raise Imprecision("cannot identify the upstream-failure signal (%r)" % uf)
    K["upfail"] = list(uf)[0]
    cons = pushes(K["done"], C["Finished"], lambda v: nbr_of_self(v["key"], "Outgoing", via=True))
    if len(cons) != 1:
        raise Imprecision("cannot identify the consider signal (%r)" % cons)
    K["consider"] = list(cons)[0]
    # abort: the kind queued by abort_remaining
    ab = A.evaluator_fn("abort_remaining")
    r = A.joined_run(ab)
    aks = set()
    for v in r.by_kind("extend"):
        e = v["elem"]
        if v["target"][0] == "self" and e is not None and e[0] == "adt" and e[1] == A.L.signal_ty:
            kf = adt_variants(e)[0][A.L.sig_kind_field]
            if kf[0] == "fin":
                aks |= set(kf[2])
    for v in r.by_kind("push_signal"):
        if v["container"] == "queue":
            aks |= set(v["kinds"])
    if len(aks) != 1:
        # kinds that an event queues as well are not the abort kind (if the abort entry queues those too, the abort rules say so)
        aks = aks - {sk, fk, ck}
    if len(aks) != 1:
        raise Imprecision("cannot identify the abort signal (%r)" % aks)
    K["abort"] = list(aks)[0]
    # ready: the kind whose handler enters the Ready class
    rk = set()
    for (k, s), run in H.items():
        for w in run.by_kind("write_state"):
            if is_role(w["key"], "sigtarget") and (set(w["to"]) & C["Ready"]):
                rk.add(k)
    if len(rk) != 1:
        # the class the start event accepts may be wider than what is offered (that is C20's business): take the kind whose
        # handler puts its own job into the set of offered jobs
        from rules_protocol import set_fields as _set_fields
        ready_f_, _cf = _set_fields(A)
        rk2 = set()
        for (k, s), run in H.items():
            for v in run.by_kind("set_op"):
                if v["op"] == "insert" and v["target"] == ("self", ready_f_) and v["elem"][0] in ("key", "str"):
                    rk2.add(k)
        if len(rk2) == 1:
            rk = rk2
    if len(rk) != 1:
        raise Imprecision("cannot identify the ready signal (%r)" % rk)
    K["ready"] = list(rk)[0]
    A.__dict__["_kinds"] = K
    return K


def nbr_of_self(keyinfo, direction, parent_tag="sigtarget", via=False):
    """the key is a direct neighbour (via: or was taken from a local collection of neighbours - possibly a filtered one)"""
    for r in keyinfo[1]:
        if isinstance(r, tuple) and r[0] == "nbr" and r[2] == direction:
            return True
        if via and isinstance(r, tuple) and r[0] == "via" and nbr_of_self((None, r[1]), direction, parent_tag, True):
            return True
    return False


def nbr_parent(keyinfo):
    for r in keyinfo[1]:
        if isinstance(r, tuple) and r[0] == "nbr":
            return r[1], r[2]
    return None, None


def loop_of_key(A, fact):
    """(body, fid, header block, block of the fact inside the activation that bound its job key) or an error string"""
    from rules_protocol import key_binding
    kb = key_binding(fact)
    if kb is None:
        return "key is not bound by an iterator"
    run = fact.get("_run")
    if run is None:
        return "no run information"
    pos = run.pos_in(fact, kb[0])
    if pos is None:
        return "key bound in another function activation"
    body = A.facts.body(pos[0])
    return (body, kb[0], kb[1], pos[1])


def forall_loop(A, fact, must=False):
    """The key of `fact` was bound by Iterator::next in some activation.  Check the for-all-neighbours idiom there: the
    binding block heads a natural loop whose only regular exit is the exhausted-iterator edge, and (if must) every path
    from the element edge back to the header passes through the fact (or the call that leads to it).  -> (ok, reason)"""
    lk = loop_of_key(A, fact)
    if fact.get("total_iter") and (isinstance(lk, str) or len(lk[0].natural_loop(lk[2])) <= 1):
        # emitted from inside extend(..)/for_each(..) over an unfiltered iterator: every element is visited by construction
        return True, ""
    if isinstance(lk, str):
        return False, lk
    body, fid, head, fbb = lk
    loop = body.natural_loop(head)
    if len(loop) <= 1:
        return False, "binding block bb%d is not a loop header" % head
    errs = error_exit_blocks(A, body) | residual_blocks(body)
    t = body.term(head)
    if t["k"] != "call" or t["t"] < 0:
        return False, "loop header is not an iterator step"
    sw = t["t"]
    rets = set(returns_of(body))
    for b in loop:
        for s_ in body.succs(b):
            if s_ in loop or b == sw or body.term(s_)["k"] == "unreachable":
                continue
            if s_ in errs or not (rets & body.reachable(s_, errs)):
                continue     # leaving into a pure error exit is not an early exit of the iteration scheme
            return False, "loop over the neighbours can be left early (bb%d -> bb%d)" % (b, s_)
    if must:
        for s0 in [s_ for s_ in body.succs(sw) if s_ in loop]:
            if s0 == fbb:
                continue
            r = body.reachable(s0, {fbb} | (errs - {s0}))
            if head in r:
                return False, "an iteration can complete without passing bb%d" % fbb
    return True, ""


def forall_loop_taken(A, run, fact, must_bb=None):
    """like forall_loop(must), but the must-pass part only follows CFG edges that the abstract run took
    (so that conditions decided by the trace partition do not count as escape routes)"""
    ok, why = forall_loop(A, fact)
    if not ok:
        return ok, why
    lk_ = loop_of_key(A, fact)
    if isinstance(lk_, str) or len(lk_[0].natural_loop(lk_[2])) <= 1:
        return True, ""      # total iteration by construction (extend / for_each)
    body, fid, head, fbb = lk_
    sw = body.term(head)["t"]
    loop = body.natural_loop(head)
    errs = error_exit_blocks(A, body) | residual_blocks(body)
    for s0 in [s_ for s_ in body.succs(sw) if s_ in loop]:
        if s0 == fbb:
            continue
        r = run.taken_reachable(fid, s0, {fbb} | errs)
        if head in r:
            return False, "an iteration can complete without passing bb%d" % fbb
    return True, ""


def rule_finished_means_all(A, R, rule):
    """'finished' is only reported when *every* job is finished: with at least one job, every job the report enumerates itself
    unfinished, and - adversarially - every job it merely looks up through some other collection finished, the answer is
    'not finished'.  (A report that scans a subset - the leaves, a work list - sees finished jobs only and says 'finished'.)"""
    C = A.classes()
    isf = A.evaluator_fn("is_finished")
    ss = A.uni.fin[A.L.startstatus]
    s0 = A.initial_start_status()
    nonfin = frozenset(A.JS) - C["Finished"]
    # the status under which the evaluation is going on: the one event_startup stores
    running = set()
    for st in A.startup_runs():
        for v in st.by_kind("store_self"):
            if v["proj"][:1] == (("f", A.L.start_field),) and v["value"][0] == "fin":
                running |= set(v["value"][2])
    R.ob(rule, "event_startup stores exactly one start status", len(running) == 1, detail=str(sorted(running)))
    for s in sorted(running):
        sn = A.uni.show(A.L.startstatus, s)
        for d in sorted(nonfin):
            r = A.run(isf.name, "ISFALL|%s|%s" % (sn, A.sname(d)),
                      dict(self_init={A.L.start_field: fin(A.L.startstatus, [s])}, default_states=fin(A.L.jobstate, C["Finished"]),
                           cell_init={"alljobs": fin(A.L.jobstate, [d])}, flags=("nonempty_jobs",)))
            rv = r.ret
            ok = rv is not None and rv[0] == "fin" and set(rv[2]) == {(0,)}
            R.ob(rule, "is_finished | evaluation going on, every job in %s | answers 'not finished'" % A.sname(d), ok,
                 detail="possible answers %s: the report does not look at every job (it enumerates a subset, or nothing)"
                        % (sorted(c[0] for c in rv[2]) if (rv is not None and rv[0] == "fin") else rv))


def finishing_writes(A):
    """state writes from a not-finished into a finished state: [(t, from-set, to-set)]"""
    C = A.classes()
    out = []
    for t in A.transitions():
        w = t["w"]
        f = set(w["frm"]) - C["Finished"]
        to = set(w["to"]) & C["Finished"]
        if f and to:
            out.append((t, f, to))
    return out


def has_connected(A, run, w, kind_pred):
    for v in run.by_kind("push_signal"):
        if v["container"] == "queue":
            continue
        if kind_pred(v) and v["key"][0] == w["key"][0] and connected(A, w, v):
            return v
    return None


def removed_before(A, run, w):
    """was the job taken out of the graph (remove_node) on the path to this write?"""
    for v in run.by_kind("dag_remove_node"):
        if v["key"][0] == w["key"][0] and connected(A, w, v):
            return True
    return False


def rule_failure_propagation(A, R, rule1, rule2):
    C = A.classes()
    K = kinds(A)
    H = A.handler_runs()
    UF = C["UpstreamFailed"]
    # R7.1 / R7.2: whoever is written Failed / UpstreamFailed tells every direct downstream
    n = 0
    for hk, label in ((K["failure"], "failure"), (K["upfail"], "upstream-failure")):
        for s in A.JS:
            run = H[(hk, s)]
            for w in run.by_kind("write_state"):
                if not is_role(w["key"], "sigtarget"):
                    continue
                if not (set(w["to"]) & (C["Failed"] | UF)):
                    continue
                n += 1
                em = [v for v in run.by_kind("push_signal") if v["container"] != "queue" and K["upfail"] in v["kinds"]
                      and nbr_parent(v["key"]) == (w["key"][0], "Outgoing")]
                ok, why = False, "no upstream-failure signal is sent to the direct downstreams"
                for v in em:
                    if set(v["kinds"]) != {K["upfail"]}:
                        continue
                    ok, why = forall_loop(A, v, must=True)
                    if ok:
                        # the loop itself must be reached on every path from the write to the end of the handler
                        com = run.common(w, v)
                        lk = loop_of_key(A, v)
                        if com is not None and not isinstance(lk, str) and com[0] == lk[1]:
                            fidc, fnc, bw, bv = com
                            body = A.facts.body(fnc)
                            head = lk[2]
                            errs = error_exit_blocks(A, body) | residual_blocks(body)
                            from rules_protocol import key_binding
                            kbw = key_binding(w)
                            outer = kbw[1] if (kbw is not None and kbw[0] == fidc) else None
                            r = run.taken_reachable(fidc, bw, ({head} | errs) - {bw})
                            if (outer is not None and outer in r) or ("return" in r) or (set(returns_of(body)) & r):
                                ok, why = False, "the handler can end after the state write without visiting the downstreams"
                        break
                R.ob(rule1 if label == "failure" else rule2,
                     "%s | %s handler | %s -> %s | every direct downstream is sent the upstream-failure signal"
                     % (short(w["fn"]), A.kname(hk), A.snames(w["frm"]), A.snames(w["to"])), ok, detail=why, site=A.site(w))
    R.floor(rule1, "writes of a failed / upstream-failed state by the failure handlers", n, 4)


# =============================================================================================
@prop("C07")
def check_C07(A, R, tier):
    C = A.classes()
    K = kinds(A)
    H = A.handler_runs()
    T = A.transitions()
    UF = C["UpstreamFailed"]
    rule_failure_propagation(A, R, "R7.1", "R7.2")
    # R7.10 (= R5.2): a failure elsewhere never ends the evaluation early: 'finished' is reported only when every job is (a count
    # of 'done' announcements counts a job twice that is re-classified upstream-failed after it was skipped)
    rule_finished_means_all(A, R, "R7.10")
    # R7.11 (= R6.6): a failure passed on in a later round cancels the consider signals pending for the downstream - handled first,
    # they end in an internal error that drops the batch, and the downstream is never reported upstream-failed
    from rules_compare import rule_failure_cancels_considers
    rule_failure_cancels_considers(A, R, "R7.11")
    # R7.3 typestate
    postrun = set(C["Running"])
    changed = True
    while changed:
        changed = False
        for t in T:
            w = t["w"]
            if w["frm"] & postrun:
                new = set(w["to"]) - postrun
                if new:
                    postrun |= new
                    changed = True
    R.info["states_after_start"] = A.snames(postrun)
    n = 0
    for t in T:
        w = t["w"]
        for f in sorted(w["frm"]):
            for to in sorted(w["to"]):
                if to in UF and f not in UF:
                    n += 1
                    started_only = f in postrun and not reachable_without_running(A, f)
                    R.ob("R7.3", tkey(A, t, f, to) + " | never for a job that was started", not started_only and f not in C["Running"] and f not in C["Ready"],
                         detail="a job that was offered / started / has finished executing is reported upstream-failed", site=A.site(w))
                    # R7.4: only the upstream-failure handler, acting on its own target
                    R.ob("R7.4", tkey(A, t, f, to) + " | only the upstream-failure handler reports upstream-failed",
                         t["ctx"][0] == "handler" and t["ctx"][1] == K["upfail"] and is_role(w["key"], "sigtarget"),
                         detail="an upstream-failed state is written outside the upstream-failure handler", site=A.site(w))
                    # R7.5: no re-classification after the job's completion was announced
                    R.ob("R7.5", tkey(A, t, f, to) + " | not after the job was announced finished", f not in C["Finished"],
                         skey="upstream-failure handler | own job | %s -> %s" % (describe_state(A, f), describe_state(A, to)),
                         detail="a job that had already finished (its downstreams were released) is re-classified as upstream-failed; "
                                "a downstream that has meanwhile been started receives the upstream-failure signal, which its handler "
                                "rejects with an internal error", site=A.site(w))
                if f in UF:
                    R.ob("R7.3", tkey(A, t, f, to) + " | upstream-failed is final", to in UF,
                         detail="an upstream-failed job changes state", site=A.site(w))
    R.floor("R7.3", "transitions into an upstream-failed state", n, 3)
    # R7.4b: the upstream-failure signal is only sent to direct downstreams of a job just written failed/upstream-failed
    n = 0
    for (k, s), run in H.items():
        for v in run.by_kind("push_signal"):
            if v["container"] == "queue" or K["upfail"] not in v["kinds"]:
                continue
            n += 1
            parent, d = nbr_parent(v["key"])
            okp = d == "Outgoing" and any(w["key"][0] == parent and (set(w["to"]) <= (C["Failed"] | UF)) and connected_fn(A, w, v)
                                          for w in run.by_kind("write_state"))
            R.ob("R7.4", "%s | %s handler | upstream-failure is signalled only to direct downstreams of a job just marked failed"
                 % (short(v["fn"]), A.kname(k)), okp and set(v["kinds"]) == {K["upfail"]},
                 detail="target roles: %s" % role_str(v["key"]), site=A.site(v))
    R.floor("R7.4", "upstream-failure emissions", n, 2)
    for name in list(EVENTS) + ["abort_remaining", "event_startup"]:
        b = A.evaluator_fn(name)
        runs = A.startup_runs() if name == "event_startup" else ([A.joined_run(b)] if name == "abort_remaining" else list(A.event_runs(name).values()))
        bad = [v for r_ in runs for v in r_.by_kind("push_signal") if K["upfail"] in v["kinds"]]
        R.ob("R7.4", "%s | does not signal upstream failure itself" % name, not bad)
    rule_upstream_failure_reclassifies(A, R, "R7.7")
    rule_undecided_downstream(A, R, None, "R7.8")
    rule_needed_flag_decides(A, R, "R7.8")
    # R7.9 (= R3.3): a job is validated (and its consumers released) only when every upstream is finished or a validated Ephemeral that
    # has not been offered: otherwise a failure of a running upstream cannot stop the consumers any more
    from rules_compare import rule_validation_verdict
    rule_validation_verdict(A, R, "R7.9")
    # R7.6: a stale consider signal for a finished job is a no-op
    for s in sorted(C["Finished"]):
        run = H[(K["consider"], s)]
        eff = [e for e in effects(A, run) if e[0] not in ("opaque_call",)]
        eff = [e for e in eff if not (e[0] == "push_signal") and not (e[0] == "extend" and e[1]["target"] == ("self", A.L.signals_field))]
        pushes = [v for v in run.by_kind("push_signal") if v["container"] != "queue"]
        R.ob("R7.6", "consider handler | %s | no effect on a finished job" % A.sname(s), not eff and not pushes,
             detail="; ".join("%s at %s" % (e[0], A.site(e[1])) for e in eff[:3]))
    R.explanation = ("Failure propagation and reporting as typestate/path rules over the extracted protocol: the failure and "
                     "upstream-failure handlers send the upstream-failure signal to every direct downstream (∀-neighbour loop, "
                     "must-emit, no early exit); upstream-failed states are written only by that handler on its own target, only "
                     "from never-offered states, and are final; the signal is sent only to direct downstreams of a job just marked "
                     "failed.  Not decided: that jobs without failed ancestors behave exactly as in the failure-free evaluation.")
    R.assume("the twin-run clause (\"executed or skipped exactly as without failures\") is not decided statically")


def rule_upstream_failure_reclassifies(A, R, rule):
    """a job that has not been started and is not yet failed-like, when told that a direct upstream failed, ends upstream-failed (it
    must not stay 'skipped' or pending); exempt: finished states of the cleanup kind (Ephemerals nobody needs stay skipped)"""
    C = A.classes()
    K = kinds(A)
    H = A.handler_runs()
    UF = C["UpstreamFailed"]
    cleanup_kinds = set(A.kind_of(x) for x in C["CleanupOffered"])
    n = 0
    for s in sorted(A.reach()):
        if s in C["FailedLike"] or s in C["Running"] or not reachable_without_running(A, s):
            continue
        if s in C["Finished"] and A.kind_of(s) in cleanup_kinds:
            continue
        run = H[(K["upfail"], s)]
        okp = iteration_completes(A, run)
        ws = [w for w in run.by_kind("write_state") if is_role(w["key"], "sigtarget") and s in w["frm"]]
        n += 1
        ok = (not okp) or (bool(ws) and all(set(w["to"]) <= UF for w in ws))
        why = "the handler returns normally and leaves the job in %s: it is reported as %s although a direct upstream failed" % (
            A.sname(s), "skipped/succeeded" if s in C["Finished"] else "pending")
        if ok and okp and ws:
            res = [forall_loop_taken(A, run, w) for w in ws]
            if not any(r_[0] for r_ in res):
                ok, why = False, "the re-classification is not on every path of the handler: " + res[0][1]
        R.ob(rule, "upstream-failure handler | %s | a not-yet-started job is re-classified upstream-failed" % A.sname(s), ok, detail=why,
             skey="upstream-failure handler | own job %s must end upstream-failed" % describe_state(A, s))
    R.floor(rule, "not-yet-started, not failed-like states", n, 5)


def rule_needed_flag_decides(A, R, rule):
    """a dependency flagged as needed makes the requirement summary answer 'needed' whatever state its downstream is in (an
    upstream-failed consumer does not un-flag it: the decision functions behind the summary rely on that)"""
    # ... and a dependency flagged as needed makes the summary answer 'needed' whatever state its downstream is in (an upstream-failed
    # consumer does not un-flag it: the decision functions behind the summary rely on that)
    try:
        from rules_c04 import summary_table
        for tab in summary_table(A):
            flagged = {}
            for (d, c), e in tab["table"].items():
                for i_, x in enumerate(c):
                    flagged.setdefault((i_, x), []).append((d, e))
            decisive = [(i_, x) for (i_, x), lst in flagged.items()
                        if sum(1 for (d, e) in lst if len(e["early"]) == 1 and not e["cont"]) >= 0.8 * len(lst) and len(set(tuple(sorted(e["early"])) for (d, e) in lst if not e["cont"])) == 1
                        and any(e["early"] and not e["cont"] for (d, e) in lst)]
            for (i_, x) in decisive:
                bad = [A.sname(d) for (d, e) in flagged[(i_, x)] if e["cont"] or len(e["early"]) != 1]
                R.ob(rule, "%s | a dependency whose flag %s is %s decides the answer for every downstream state" % (
                    short(tab["fn"].name), A.L.edge_fields[i_]["name"] if i_ < len(A.L.edge_fields) else i_, A.uni.show(tab["flag_ty"][i_], x)),
                    not bad, detail="for a downstream in %s the flag is passed over" % bad[:3])
    except ImportError:
        pass


def signal_loop(A, run):
    """(fid, body, head) of the loop that hands out the signals in this partition run: the loop that binds the signal's job
    (directly, or - when the batch was first collected into a local list - exactly from it), not the loop that moves new signals
    into the queue, and of several candidates in one function the one that comes first (dominates the others)"""
    cands = []
    for sym, (roles, _c) in run.syms.items():
        vias = [r[1] for r in roles if isinstance(r, tuple) and r[0] == "via"]
        exact = "sigtarget" in roles or (vias and all(set(v) == {"sigtarget"} for v in vias))
        if isinstance(sym, tuple) and sym[0] == "b" and exact and sym[1] in run.frames:
            body = A.facts.body(run.frames[sym[1]][0])
            if body is not None and len(body.natural_loop(sym[2])) > 1:
                cands.append((sym[1], body, sym[2]))
    direct = [(f, b, h) for (f, b, h) in cands
              if any(sy[:3] == ("b", f, h) and "sigtarget" in ro for sy, (ro, _c2) in run.syms.items() if isinstance(sy, tuple))]
    if direct:
        cands = direct       # the loop that binds the signal's job directly, not one that re-reads it from a local list
    if len(set((f, h) for (f, b, h) in cands)) > 1:
        # not the loop that moves the newly emitted signals into the queue
        transfer = set()
        for v in run.by_kind("push_signal"):
            sy = v["key"][0]
            if v.get("container") == "queue" and isinstance(sy, tuple) and sy[0] == "b":
                transfer.add((sy[1], sy[2]))
        rest = [(f, b, h) for (f, b, h) in cands if (f, h) not in transfer]
        if rest:
            cands = rest
    uniq = {}
    for (f, b, h) in cands:
        uniq[(f, h)] = (f, b, h)
    cands = list(uniq.values())
    if len(cands) > 1 and len(set(f for (f, b, h) in cands)) == 1:
        b0 = cands[0][1]
        first = [(f, b, h) for (f, b, h) in cands if all(h == h2 or b0.dominates(h, h2) for (_f2, _b2, h2) in cands)]
        if len(first) == 1:
            cands = first
    if len(cands) != 1:
        raise Imprecision("cannot identify the signal loop (%d candidates)" % len(cands))
    return cands[0]


def iteration_completes(A, run):
    """does the partition run of the signal processor finish handling its signal normally (reach the head of the loop that
    binds the signal's job again, on taken edges, without passing an error exit)?"""
    fid, body, h = signal_loop(A, run)
    loop = body.natural_loop(h)
    sw = body.term(h)["t"]
    errs = error_exit_blocks(A, body) | residual_blocks(body)
    for s0 in [s_ for s_ in body.succs(sw) if s_ in loop]:
        if h in run.taken_reachable(fid, s0, errs):
            return True
    return False


def describe_state(A, s):
    """name-free description of a job state: the kind by its capabilities and the state by the classes it belongs to"""
    C = A.classes()
    cleanup_kinds = set(A.kind_of(x) for x in C["CleanupOffered"])
    skippable = set(A.kind_of(x) for x in (C["Finished"] - C["FailedLike"]) if reachable_without_running(A, x) and x in A.reach())
    k = A.kind_of(s)
    kind = "cleanup-kind" if k in cleanup_kinds else ("skippable-kind" if k in skippable else "always-run-kind")
    cls = [n for n in ("Init", "Ready", "Running", "Finished", "Failed", "UpstreamFailed", "Aborted", "CleanupOffered") if s in C[n]]
    if not cls:
        # pending, decided states
        try:
            from rules_compare import invalidated_states
            if s in invalidated_states(A):
                cls.append("invalidated")
            elif s in delayed_states(A):
                cls.append("validated,parked")
            else:
                cls.append("validated,upstreams-pending")
        except Imprecision:
            cls.append("pending")
    if s in C["Finished"] and s not in C["FailedLike"]:
        cls.append("never-started" if reachable_without_running(A, s) else "after-running")
    return "%s{%s}" % (kind, ",".join(cls))


def connected_fn(A, w, v):
    return connected(A, w, v)


def reachable_without_running(A, state):
    """can `state` be reached from Init without passing a Running state?"""
    C = A.classes()
    if "_ns" not in A.__dict__:
        ns = set(C["Init"])
        changed = True
        while changed:
            changed = False
            for t in A.transitions():
                w = t["w"]
                if w["frm"] & ns:
                    new = set(w["to"]) - ns - C["Running"]
                    if new:
                        ns |= new
                        changed = True
        A.__dict__["_ns"] = ns
    return state in A.__dict__["_ns"]


# =============================================================================================
def residual_blocks(body):
    """blocks that propagate an error with `?` (call FromResidual::from_residual) or diverge"""
    out = set()
    for blk in body.blocks:
        if blk["cleanup"]:
            continue
        t = blk["term"]["t"]
        if t["k"] == "call" and ("from_residual" in (M.callee_name(t) or "") or t["t"] < 0):
            out.add(blk["i"])
    return out


def loop_region(body, head, A=None):
    """natural loop of `head` plus the blocks of its early-exit paths up to the continuation block
    (the first block common to all regular ways out of the loop; `?`/panic exits do not count).
    Returns (region, continuation)."""
    loop = body.natural_loop(head)
    errs = residual_blocks(body)
    if A is not None:
        errs = errs | error_exit_blocks(A, body)
    rets = set(returns_of(body))
    exits = []
    for b in loop:
        for s_ in body.succs(b):
            if s_ not in loop and body.term(s_)["k"] != "unreachable":
                if s_ in errs or not (rets & body.reachable(s_, errs)):
                    continue
                exits.append(s_)
    cont = None
    if exits:
        inter = None
        for e in exits:
            r = body.reachable(e, {head})
            inter = set(r) if inter is None else (inter & r)
        for x in sorted(inter or ()):
            if inter <= body.reachable(x, {head}):
                cont = x
                break
    region = set(loop)
    if cont is not None:
        for e in exits:
            region |= body.reachable(e, {cont, head})
        region.discard(cont)
    return region, cont


def monotone_flags(A, body, head):
    """structural half of the ∀-loop decomposition: inside the loop of `head` (including its break
    paths), every bool local that is also assigned outside the loop is only ever assigned one constant"""
    loop, cont = loop_region(body, head, A)
    inside, outside = {}, {}
    for blk in body.blocks:
        if blk["cleanup"]:
            continue
        for st in blk["stmts"]:
            if st["k"] == "assign" and not st["p"]["p"] and body.locals[st["p"]["l"]]["s"] == "bool":
                d = inside if blk["i"] in loop else outside
                r = st["r"]
                val = r["o"]["const"] if (r["k"] == "use" and "const" in r["o"]) else None
                d.setdefault(st["p"]["l"], []).append(val)
    bad = []
    flags = []
    for l, vals in inside.items():
        if l in outside and body.local_names.get(l) is not None:
            flags.append(l)
            if None in vals or len(set(vals)) != 1:
                bad.append(body.local_name(l))
    return flags, bad


def loop_conjunction(A, fn_name, is_target_write):
    """A5 'monotone flag' idiom, decided with the interpreter.  In `fn_name` find the state write
    selected by `is_target_write`, the innermost neighbour loops that precede it inside the same outer
    iteration, and the bool flags those loops lower.  For every concrete neighbour state d run ONE loop
    iteration abstractly (flags raised at its start) and report the d for which all flags stay raised
    ('passing'); also check that the write is only reachable with all flags raised."""
    from interp import Interp, Config, State
    body = A.facts.body(fn_name)
    I = Interp(A.facts, A.uni, A.layout, Config(label="LC"))
    fr, out, col = I.analyze(body)
    ins = col["ins"]
    ws = []
    for k, v in I.rec.facts.items():
        if k[0] == "write_state" and is_target_write(v):
            # position of the write inside the analysed function (the call site if it happens in a callee)
            if v["fid"] == fr.fid:
                ws.append(dict(v, bb=v["bb"]))
            elif v["stack"] and v["stack"][0][0] == body.name:
                ws.append(dict(v, bb=v["stack"][0][1]))
    if not ws:
        return None
    w = ws[0]
    wsym = w["key"][0]
    outer_head = wsym[2] if (isinstance(wsym, tuple) and wsym[0] == "b" and wsym[1] == fr.fid) else None
    heads = set(h for (_, h) in body.back_edges())
    inner = []
    for h in heads:
        if h == outer_head:
            continue
        t = body.term(h)
        if t["k"] != "call" or t["t"] < 0:
            continue
        nm = M.callee_name(t) or ""
        if not nm.endswith("::next"):
            continue
        loop = body.natural_loop(h)
        if outer_head is not None and h not in body.natural_loop(outer_head):
            continue
        if w["bb"] in loop:
            continue
        if w["bb"] not in body.reachable(h):
            continue
        inner.append(h)
    if not inner:
        return find_form_conjunction(A, body, I, fr, w)
    flags_all, bad_all = set(), []
    passing = set(A.JS) if inner else set()
    for h in inner:
        flags, bad = monotone_flags(A, body, h)
        # only flags that are raised (true) when the loop starts matter
        flags_all |= set(flags)
        bad_all += bad
        loop = body.natural_loop(h)
        sw = body.term(h)["t"]
        somes = [s_ for s_ in body.succs(sw) if s_ in loop]
        region, cont = loop_region(body, h, A)
        exits = {cont} if cont is not None else set(s_ for b in loop for s_ in body.succs(b) if s_ not in loop)
        sym = ("b", fr.fid, h, "nbr")
        passing_h = set()
        for d in A.JS:
            ok_d = False
            for s0 in somes:
                if s0 not in ins:
                    continue
                st = ins[s0].copy()
                for fl in flags:
                    st.locals[(fr.fid, fl)] = ("fin", BOOL, frozenset([(1,)]), ())
                hk = ("job", sym)
                cell = st.heap.get(hk)
                if cell is None or cell[0] != "adt":
                    continue
                from domain import av_set
                st.heap[hk] = av_set(cell, (("f", A.L.state_field),), fin(A.L.jobstate, [d]), A.uni)
                col2 = {}
                I2 = I
                I2.run(fr, st, start=s0, stops=({h} | exits), collect=col2)
                for b_, s2 in col2["stops"].items():
                    vals = [s2.locals.get((fr.fid, fl)) for fl in flags]
                    if all(v is not None and v[0] == "fin" and (1,) in v[2] for v in vals):
                        ok_d = True
            if ok_d:
                passing_h.add(d)
        passing &= passing_h
    # gate: at the write, every flag is known to be raised
    gate_ok = True
    stw = ins.get(w["bb"])
    if stw is None:
        gate_ok = False
    else:
        for fl in flags_all:
            v = stw.locals.get((fr.fid, fl))
            if v is None or v[0] != "fin" or set(v[2]) != {(1,)}:
                gate_ok = False
    return dict(passing=passing, loops=len(inner), flags=len(flags_all), bad_flags=bad_all, gate_ok=gate_ok, site=A.site(w),
                fn=fn_name)


def find_form_conjunction(A, body, I0, fr0, w):
    """the guard is `neighbours(..).find(|d| blocks(d))` (or any/all): a downstream passes iff the predicate can be false for it;
    the write must be unreachable when the search is forced to find a blocker"""
    from interp import Interp, Config
    from protocol import forced_analysis
    def nbr_dir(tm):
        """direction of the neighbour enumeration at the bottom of an adaptor chain (map / filter / copied ...), or None"""
        while isinstance(tm, tuple) and tm:
            if tm[0] == "nbr":
                return tm[3]
            if tm[0] in ("map", "filter", "filter_map", "enum", "fresh") and len(tm) > 1:
                tm = tm[1]
                continue
            return None
        return None
    qs = [v for k, v in I0.rec.facts.items() if k[0] == "quantifier" and v.get("iter") is not None and nbr_dir(v["iter"][1]) == "Outgoing"
          and v["fid"] == fr0.fid]
    if len(qs) != 1:
        return None
    q = qs[0]
    tag = None
    passing = set()
    for d in A.JS:
        I2 = Interp(A.facts, A.uni, A.layout, Config(label="FINDQ", cell_init={"nbr:Outgoing:nbr:Incoming:param": fin(A.L.jobstate, [d])}))
        fr2, out2, col2 = I2.analyze(body)
        q2 = [v for k, v in I2.rec.facts.items() if k[0] == "quantifier" and v["fid"] == fr2.fid and v["bb"] == q["bb"]]
        if not q2:
            passing.add(d)
            continue
        v = q2[0]
        if v.get("find") or not v["all"]:
            # find / any: the element blocks when the predicate is true
            if v["may_false"] or not v["may_true"]:
                passing.add(d)
        else:
            if v["may_true"]:
                passing.add(d)
    # gate: with the search forced to report a blocker the write is unreachable
    import models

    def force(kind):
        orig = models.MODELS["std::iter::Iterator::" + kind]

        def f(I_, state, frame, bi, t, args, span):
            res = orig(I_, state, frame, bi, t, args, span)
            if frame.fid != fr0.fid or bi != q["bb"]:
                return res
            keep = []
            for (rv, st) in res:
                if kind == "find":
                    if rv[0] == "adt" and 1 in dict(rv[2]):
                        keep.append((rv, st))
                elif kind == "any":
                    keep.append((TRUE_AV, st))
                else:
                    keep.append((FALSE_AV, st))
            return keep or res
        return f
    from domain import TRUE as TRUE_AV, FALSE as FALSE_AV
    kind = "find" if q.get("find") else ("all" if q["all"] else "any")
    I3, fr3, out3, col3 = forced_analysis(A, body, {"std::iter::Iterator::" + kind: force(kind)})
    ws3 = [v for k, v in I3.rec.facts.items() if k[0] == "write_state" and set(v["to"]) == set(w["to"])]
    return dict(passing=passing, loops=1, flags=1, bad_flags=[], gate_ok=not ws3, site=A.site(w), fn=body.name)


def helper_form_conjunction(A, offer_fn, is_target_write):
    """the guard of the target write is a helper `h(.., job) -> answer` with one loop over the Outgoing neighbours of its job
    (early returns and/or accumulators), and the write happens only for some of the helper's answers.  Computed:
      offer answers: the answers of h for which the write is reachable (h forced to each answer in turn);
      passing(d):    from the initial accumulators one iteration over a neighbour in state d continues the loop, and an offer
                     answer is possible right after it;
      gate:          a neighbour in a non-passing state b never lets an offer answer through: not from inside its iteration,
                     and not after it - followed by the end of the loop or by one more iteration over any state (accumulators
                     must stay lowered)."""
    from interp import Interp, Config
    from domain import av_set
    from protocol import forced_analysis
    body = A.facts.body(offer_fn)
    g = call_graph(A)
    cands = []
    for n in sorted(g.get(offer_fn, ())):
        hb = A.facts.bodies.get(n)
        if hb is None or hb.kind not in ("Fn", "AssocFn") or n == offer_fn:
            continue
        rt = hb.locals[0]
        fty = rt.get("adt") if rt.get("adt") in A.uni.fin else ("bool" if rt["s"] == "bool" else None)
        if fty is None:
            continue
        I = Interp(A.facts, A.uni, A.layout, Config(label="HF0"))
        fr, o_, col = I.analyze(hb)
        nb = [v for k, v in I.rec.facts.items() if k[0] == "neighbors" and v["fid"] == fr.fid and v["dir"] == "Outgoing" and is_role(v["key"], "param")]
        heads = [h for h in set(h for (_, h) in hb.back_edges())
                 if hb.term(h)["k"] == "call" and (M.callee_name(hb.term(h)) or "").endswith("::next")]
        if len(nb) == 1 and len(heads) == 1:
            cands.append((hb, fty, I, fr, col, heads[0]))
    if len(cands) != 1:
        return None
    hb, fty, I, fr, col, h = cands[0]
    vals = sorted(A.uni.fin[fty]) if fty in A.uni.fin else [(0,), (1,)]
    # which answers lead to the write?
    offer_vals = set()
    site = None
    for v in vals:
        av = fin(fty, [v]) if fty in A.uni.fin else ("fin", BOOL, frozenset([v]), ())
        I3, fr3, out3, col3 = forced_analysis(A, body, {hb.name: (lambda I_, st_, f_, bi_, t_, a_, sp_, _av=av: [(_av, st_)])})
        ws = [x for k, x in I3.rec.facts.items() if k[0] == "write_state" and is_target_write(x)]
        if ws:
            offer_vals.add(v)
            site = site or A.site(ws[0])
    if not offer_vals or len(offer_vals) == len(vals):
        return None
    ins = col["ins"]
    loop = hb.natural_loop(h)
    sw = hb.term(h)["t"]
    somes = [s_ for s_ in hb.succs(sw) if s_ in loop]
    nones = [s_ for s_ in hb.succs(sw) if s_ not in loop and hb.term(s_)["k"] != "unreachable"]
    if len(nones) != 1:
        return None
    sym = ("b", fr.fid, h, "nbr")
    col0 = {}
    I.run(fr, ins[0].copy(), start=0, stops={h}, collect=col0)
    first = col0["stops"].get(h)
    if first is None:
        return None

    def answers(st):
        ex = I.run(fr, st.copy(), start=nones[0], stops=())
        if ex is None:
            return set()
        rv = ex.locals.get((fr.fid, 0))
        return set(rv[2]) if (rv is not None and rv[0] == "fin") else set(vals)

    def iteration(head_state, d):
        """-> (early answers, head state after the iteration or None)"""
        early, nxt = set(), None
        for s0 in somes:
            if s0 not in ins:
                continue
            st2 = ins[s0].copy()
            for k_, v_ in head_state.locals.items():
                st2.locals[k_] = v_
            cell = st2.heap.get(("job", sym))
            if cell is None or cell[0] != "adt":
                return set(vals), None
            st2.heap[("job", sym)] = av_set(cell, (("f", A.L.state_field),), fin(A.L.jobstate, [d]), A.uni)
            col2 = {}
            ex = I.run(fr, st2, start=s0, stops={h}, collect=col2)
            if ex is not None:
                rv = ex.locals.get((fr.fid, 0))
                early |= set(rv[2]) if (rv is not None and rv[0] == "fin") else set(vals)
            for b_, s2 in col2["stops"].items():
                from interp import join_state
                nxt = join_state(nxt, s2)
        return early, nxt
    passing, gate_ok = set(), True
    after_first = {}
    for d in A.JS:
        early, nxt = iteration(first, d)
        after_first[d] = (early, nxt)
        if nxt is not None and (answers(nxt) & offer_vals):
            passing.add(d)
    for b_ in A.JS:
        if b_ in passing:
            continue
        early, nxt = after_first[b_]
        if early & offer_vals:
            gate_ok = False
        if nxt is None:
            continue
        if answers(nxt) & offer_vals:
            gate_ok = False
        for d in A.JS:
            e2, n2 = iteration(nxt, d)
            if (e2 & offer_vals) or (n2 is not None and (answers(n2) & offer_vals)):
                gate_ok = False
    # ... and a blocking neighbour after passing ones
    for p_ in sorted(passing)[:6]:
        _e, np_ = after_first[p_]
        if np_ is None:
            continue
        for b_ in A.JS:
            if b_ in passing:
                continue
            e2, n2 = iteration(np_, b_)
            if (e2 & offer_vals) or (n2 is not None and (answers(n2) & offer_vals)):
                gate_ok = False
    return dict(passing=passing, loops=1, flags=1, bad_flags=[], gate_ok=gate_ok, site=site or hb.span["s"], fn=hb.name)


def helper_find_form_conjunction(A, offer_fn, is_target_write):
    """the guard of the target write is a helper `h(.., job) -> Option<job>` that is nothing but a search
    `neighbours(job, Outgoing).find(pred)` (straight-line code, the search result is the return value), and the write happens only
    when the search finds nothing.  Then: passing(d) = pred is false for a neighbour in state d; gate = the write is unreachable
    when the helper answers Some."""
    from protocol import forced_analysis
    from models import OPTION
    from domain import adt, TOP
    body = A.facts.body(offer_fn)
    g = call_graph(A)
    cands = []
    for n in sorted(g.get(offer_fn, ())):
        hb = A.facts.bodies.get(n)
        if hb is None or hb.kind not in ("Fn", "AssocFn") or n == offer_fn or hb.locals[0].get("adt") != OPTION:
            continue
        if list(hb.back_edges()):
            continue
        straight, find_dest0 = True, False
        for blk in hb.blocks:
            if blk.get("cleanup"):
                continue
            t = blk["term"]["t"]
            if t["k"] in ("goto", "return", "drop"):
                continue
            if t["k"] != "call":
                straight = False
                break
            if (M.callee_name(t) or "").endswith("Iterator::find") and t["dest"]["l"] == 0 and not t["dest"]["p"]:
                find_dest0 = True
        if not straight or not find_dest0:
            continue
        if any(s_["k"] == "assign" and s_["p"]["l"] == 0 for blk in hb.blocks if not blk.get("cleanup") for s_ in blk["stmts"]):
            continue
        cands.append(hb)
    if len(cands) != 1:
        return None
    hb = cands[0]
    site = None
    reach_w = {}
    for nm, av in (("none", adt(OPTION, {0: ()})), ("some", adt(OPTION, {1: (TOP,)}))):
        I3, fr3, out3, col3 = forced_analysis(A, body, {hb.name: (lambda I_, st_, f_, bi_, t_, a_, sp_, _av=av: [(_av, st_)])})
        ws = [x for k, x in I3.rec.facts.items() if k[0] == "write_state" and is_target_write(x)]
        reach_w[nm] = bool(ws)
        if ws:
            site = site or A.site(ws[0])
    if not reach_w["none"]:
        return None
    passing = set()
    for d in A.JS:
        I, fr, out, col = forced_analysis(A, hb, {}, cfgd=dict(label="FINDF", default_states=fin(A.L.jobstate, [d]), flags=("nonempty_nbrs",)))
        nb = [v for k, v in I.rec.facts.items() if k[0] == "neighbors" and v["fid"] == fr.fid and v["dir"] == "Outgoing" and is_role(v["key"], "param")]
        qs = [v for k, v in I.rec.facts.items() if k[0] == "quantifier" and v.get("find") and v["fn"] == hb.name]
        if len(nb) != 1 or len(qs) != 1:
            return None
        if not qs[0]["may_true"]:
            passing.add(d)
    return dict(passing=passing, loops=1, flags=1, bad_flags=[], gate_ok=not reach_w["some"], site=site or hb.span["s"], fn=hb.name)


def rule_offer_guard(A, R, rule, need_success=True):
    """the cleanup offer is guarded by the states of *all* direct downstreams: each passes only if it finished without failure"""
    C = A.classes()
    K = kinds(A)
    H = A.handler_runs()
    CO = C["CleanupOffered"]
    okdown = (C["Finished"] - C["FailedLike"]) if need_success else C["Finished"]
    # R13.1 the offer is guarded by the states of *all* direct downstreams ------------------------
    sp = A.signal_processor()
    # the function that performs the offer (found through the handler facts)
    offer_fn = None
    for s_ in sorted(C["Finished"]):
        for w in H[(K["done"], s_)].by_kind("write_state"):
            if set(w["to"]) & CO:
                lk = loop_of_key(A, w)
                offer_fn = w["fn"] if isinstance(lk, str) else lk[0].name
    if offer_fn is None:
        raise Imprecision("anchor missing: no write into the cleanup offer in the done handler")
    res = loop_conjunction(A, offer_fn, lambda w: bool(set(w["to"]) & CO))
    if res is None:
        # the scan may have been extracted into a helper that answers wait / offer / skip
        res = helper_form_conjunction(A, offer_fn, lambda w: bool(set(w["to"]) & CO))
    if res is None:
        # ... or into a search for the first downstream that stands in the way
        res = helper_find_form_conjunction(A, offer_fn, lambda w: bool(set(w["to"]) & CO))
    R.info["offer_function"] = short(offer_fn)
    R.ob(rule, "%s | offer write found with a downstream loop in front of it" % short(offer_fn), res is not None and res["loops"] >= 1,
         detail="cannot find the loop over the direct downstreams that guards the offer")
    if res is not None:
        for d in A.JS:
            R.ob(rule, "cleanup offer | a direct downstream in state %s | blocks the offer unless it finished%s" % (A.sname(d), " without failure" if need_success else ""),
                 (d not in res["passing"]) or d in okdown,
                 detail="a downstream in state %s leaves all guard flags of the offer raised" % A.sname(d), site=res["site"])
        if need_success:
            # ... and the converse ('not forgotten'): a downstream that finished without failure never holds the offer back,
            # in whichever of those states it is by the time the last of its siblings finishes (e.g. already cleaned up itself)
            reach_ = A.reach()
            for d in sorted(okdown & reach_):
                R.ob(rule, "cleanup offer | a direct downstream in state %s | does not hold the offer back" % A.sname(d),
                     d in res["passing"],
                     detail="a downstream that finished without failure in state %s lowers a guard flag: the Ephemeral above it is never "
                            "offered for cleanup" % A.sname(d), site=res["site"])
        R.ob(rule, "%s | the downstream loop only lowers its flags (conjunction over all downstreams)" % short(offer_fn),
             not res["bad_flags"] and res["flags"] >= 1, detail="flags not monotone: %s" % res["bad_flags"])
        R.ob(rule, "%s | the offer is dominated by all guard flags being raised" % short(offer_fn), res["gate_ok"],
             detail="the offer write is reachable with a lowered flag", site=res["site"])
        R.floor(rule, "downstream states that pass the guard", len(res["passing"]), 1)


@prop("C13")
def check_C13(A, R, tier):
    C = A.classes()
    K = kinds(A)
    H = A.handler_runs()
    T = A.transitions()
    ready_f, cleanup_f = set_fields(A)
    CO = C["CleanupOffered"]
    okdown = C["Finished"] - C["FailedLike"]
    ok0 = set()
    for f, tos in sig_writes(A, K["success"]).items():
        ok0 |= tos
    rule_offer_guard(A, R, "R13.1")
    # ... 'without failure' is the engine's own per-state predicate: it must mean what the handlers do (an Ephemeral that ran
    # fine and only had its cleanup waived is not a failed downstream)
    from rules_protocol import rule_failed_predicate_agrees
    rule_failed_predicate_agrees(A, R, "R13.1")
    # ... and 'all direct downstreams' are the ones the driver declared: no declared dependency is dropped
    from rules_protocol import rule_setup_faithful
    rule_setup_faithful(A, R, "R13.1", parts=("depends_on",))
    # R13.1b / R13.2 typestate of the offer --------------------------------------------------------
    after = set()
    n = 0
    for t in T:
        w = t["w"]
        for f in sorted(w["frm"]):
            for to in sorted(w["to"]):
                if to in CO and f not in CO:
                    n += 1
                    R.ob("R13.1", tkey(A, t, f, to) + " | offered only after successful execution", f in ok0,
                         detail="the cleanup offer is entered from a state that is not 'executed successfully'", site=A.site(w))
                if f in CO and to not in CO:
                    after.add(to)
                    R.ob("R13.2", tkey(A, t, f, to) + " | the offer ends only by the acknowledgement",
                         t["ctx"][0] == "handler" and t["ctx"][1] == K["cleanup"] and is_role(w["key"], "sigtarget"),
                         detail="an offered Ephemeral leaves the offer without an acknowledgement", site=A.site(w))
    R.floor("R13.2", "transitions into the cleanup offer", n, 1)
    for t in T:
        w = t["w"]
        for f in sorted(w["frm"]):
            if f in after:
                for to in sorted(w["to"]):
                    R.ob("R13.2", tkey(A, t, f, to) + " | acknowledged cleanup is final", to == f,
                         detail="a cleaned-up Ephemeral changes state again", site=A.site(w))
    R.ob("R13.2", "states after the acknowledgement exist", len(after) >= 1)
    # the acknowledgement signal comes from the acknowledgement event only
    for name in list(EVENTS) + ["abort_remaining", "event_startup"]:
        b = A.evaluator_fn(name)
        runs = A.startup_runs() if name == "event_startup" else ([A.joined_run(b)] if name == "abort_remaining" else list(A.event_runs(name).values()))
        has = any(K["cleanup"] in v["kinds"] for r_ in runs for v in r_.by_kind("push_signal"))
        if name == "event_job_cleanup_done":
            R.ob("R13.2", "%s queues the acknowledgement signal" % name, has)
        else:
            R.ob("R13.2", "%s does not queue the acknowledgement signal" % name, not has)
    for (k, s), run in H.items():
        bad = [v for v in run.by_kind("push_signal") if K["cleanup"] in v["kinds"] and v["container"] != "queue"]
        if bad:
            R.ob("R13.2", "%s handler | does not emit the acknowledgement signal" % A.kname(k), False, site=A.site(bad[0]))
    # set membership (stays offered until acknowledged)
    pairing(A, R, "R13.2s", CO, None, "cleanup", exclude=("self", ready_f), field=cleanup_f)
    # R13.3 not forgotten (necessary) -----------------------------------------------------------------
    not_forgotten(A, R, "R13.3")
    for s in sorted(okdown):     # a failed downstream never leads to an offer: nothing is demanded for those
        run = H[(K["done"], s)]
        nb = [v for v in run.by_kind("neighbors") if v["dir"] == "Incoming" and v["key"][0] is not None and is_role(v["key"], "sigtarget")]
        ok, why = len(nb) >= 1, "the handler does not look at the incoming neighbours of the finished job"
        if ok:
            # ... on every path of the handler (edges the partition run took): no condition on the finished job decides it
            res = [forall_loop_taken(A, run, v) for v in nb]
            if not any(r_[0] for r_ in res):
                ok, why = False, "the handler can end without looking at the upstreams of the finished job: " + res[0][1]
        R.ob("R13.3", "done handler | %s | considers the upstreams of the finished job for cleanup" % A.sname(s), ok, detail=why,
             site=A.site(nb[0]) if nb else "")
    # the outer loop over the upstreams has no early exit
    ws = []
    for s_ in sorted(C["Finished"]):
        ws += [w for w in H[(K["done"], s_)].by_kind("write_state") if set(w["to"]) & CO]
    R.floor("R13.3", "offer writes in the done handler", len(ws), 1)
    seen_w = set()
    for w in ws:
        if (w["fn"], w["bb"]) in seen_w:
            continue
        seen_w.add((w["fn"], w["bb"]))
        ok, why = forall_loop(A, w)
        if ok:
            # ... and none is filtered out by anything but its own state: a filter in front of the scan that can drop an upstream
            # in the state the offer is made from (e.g. by looking at an edge flag) makes the scan incomplete
            sym = w["key"][0]
            run_w = w.get("_run")
            if isinstance(sym, tuple) and sym[0] == "b" and run_w is not None:
                frs = [f for f in run_w.by_kind("filter_result") if f.get("fid") == sym[1] and f["bb"] == sym[2]]
                if any(f["may_false"] for f in frs):
                    ok, why = False, "the upstreams are filtered before they are considered: one that waits for this downstream can be passed over"
        R.ob("R13.3", "%s | every upstream of the finished job is considered (no early exit, not filtered)" % short(w["fn"]), ok, detail=why, site=A.site(w))
    R.explanation = ("Safety: the only insertion into the cleanup set is evaluated with all direct downstreams of the Ephemeral in "
                     "each of the %d concrete states (uniform trace partition; sound for mixed states because the downstream loop only "
                     "lowers constant flags) and is reachable only when they finished without failure; the offer state is entered only "
                     "from 'executed successfully', left only by the acknowledgement handler, whose signal only the acknowledgement "
                     "event queues, into final states.  'Not forgotten' is a necessary condition: every finishing write announces the "
                     "job and the announcement handler considers every upstream." % len(A.JS))
    R.assume("that the announcement of the last downstream is processed after the Ephemeral's own success is a global ordering fact that is not decided")


def not_forgotten(A, R, rule):
    """every write that finishes a job is followed by the 'done' announcement for the same job"""
    C = A.classes()
    K = kinds(A)
    n = 0
    for (t, f, to) in finishing_writes(A):
        w = t["w"]
        run = t["run"]
        if t["ctx"][0] == "handler" and t["ctx"][1] == K["abort"]:
            continue    # after an abort nothing is scheduled any more
        n += 1
        v = has_connected(A, run, w, lambda v: K["done"] in v["kinds"] and set(v["kinds"]) == {K["done"]})
        ok = v is not None
        why = "no 'done' signal for the job follows the write"
        com = run.common(w, v) if ok else None
        if ok and com is not None:
            # must-pass: from the write, the end of the handler is not reachable around the emission (taken edges only)
            fidc, fnc, bw, bv = com
            body = A.facts.body(fnc)
            errs = error_exit_blocks(A, body) | residual_blocks(body)
            from rules_protocol import key_binding
            kb = key_binding(w)
            outer = kb[1] if (kb is not None and kb[0] == fidc) else None
            r = run.taken_reachable(fidc, bw, ({bv} | errs) - {bw})
            if bw != bv and ((outer is not None and outer in r) or "return" in r):
                ok, why = False, "the handler can end after the write without announcing the job"
        if not ok and removed_before(A, run, w):
            ok = True   # the job was taken out of the graph: it has no neighbours an announcement could reach
        R.ob(rule, tkey(A, t) + " | %s -> %s | finishing a job announces it" % (A.snames(f), A.snames(to)), ok, detail=why, site=A.site(w))
    R.floor(rule, "finishing writes", n, 8)


# =============================================================================================
def must_pass_call(A, body, callee_pred, also_skip_pred=None):
    """on every path from entry to a return, a call matching callee_pred is passed -- paths through blocks
    matching also_skip_pred (e.g. error propagation) are exempt"""
    removed = set()
    for blk in body.blocks:
        if blk["cleanup"]:
            continue
        t = blk["term"]["t"]
        if t["k"] == "call":
            nm = M.callee_name(t) or ""
            if callee_pred(nm) or (also_skip_pred is not None and also_skip_pred(nm)):
                removed.add(blk["i"])
    removed |= error_exit_blocks(A, body)
    r = body.reachable(0, removed)
    return not (set(returns_of(body)) & r), removed


@prop("C10")
def check_C10(A, R, tier):
    C = A.classes()
    K = kinds(A)
    H = A.handler_runs()
    ab = A.evaluator_fn("abort_remaining")
    nonfin = frozenset(A.JS) - C["Finished"]
    # R10.1a: every unfinished job gets the abort signal -------------------------------------------
    jobs = []
    for d in A.JS:
        jobs.append((ab.name, "AB|%s" % A.sname(d), dict(opaque=list(A.signal_entry_names()),
                                                        cell_init={"alljobs": fin(A.L.jobstate, [d])},
                                                        default_states=fin(A.L.jobstate, [d]))))
    A.run_many(jobs)
    n = 0
    for d in A.JS:
        run = A.runs[(ab.name, "AB|%s" % A.sname(d))]
        got = set()
        tgt_ok = True
        for v in run.by_kind("extend"):
            e = v["elem"]
            if v["target"] == ("self", A.L.signals_field) and e is not None and e[0] == "adt" and e[1] == A.L.signal_ty:
                fs = adt_variants(e)[0]
                if fs[A.L.sig_kind_field][0] == "fin":
                    got |= set(fs[A.L.sig_kind_field][2])
                kk = fs[A.L.sig_node_field]
                if not (kk[0] == "key" and is_role((kk[1], kk[2]), "alljobs")):
                    tgt_ok = False
        for v in run.by_kind("push_signal"):
            if v["container"] == "queue":
                got |= set(v["kinds"])
        if d in nonfin:
            n += 1
            R.ob("R10.1", "abort_remaining | job in state %s | is sent the abort signal" % A.sname(d), got == {K["abort"]} and tgt_ok,
                 detail="signals queued for an unfinished job in this state: %s" % sorted(A.kname(k) for k in got))

    R.floor("R10.1", "unfinished states", n, 10)
    # must-analysis of the chain  job -> index list -> signal list -> queue  for an unfinished job
    for d in sorted(nonfin):
        run = A.runs[(ab.name, "AB|%s" % A.sname(d))]
        fid0 = [v["fid"] for v in run.by_kind("call") if v["fn"] == ab.name]
        fid0 = fid0[0] if fid0 else None
        pl = [v for v in run.by_kind("push_local") if v["key"][0] is not None and is_role(v["key"], "alljobs")]
        ok1, why1 = False, "the index of an unfinished job is not collected"
        for v in pl:
            ok1, why1 = forall_loop_taken(A, run, v)
            if ok1:
                break
        if not ok1:
            # iterator form: jobs.iter()...filter(p)...collect(): p must hold for a job in this state
            for cv in run.by_kind("collect"):
                frs = [f for f in run.by_kind("filter_result") if f["fid"] == cv["fid"] and f["bb"] == cv["bb"]]
                if frs and all(f["may_true"] and not f["may_false"] for f in frs):
                    ok1, why1 = True, ""
                elif frs:
                    why1 = "the filter that selects the jobs to abort can drop a job in this state"
        ps = [v for v in run.by_kind("push_signal") if set(v["kinds"]) == {K["abort"]}]
        ok2, why2 = False, "no abort signal is built from the collected indices"
        for v in ps:
            if not is_role(v["key"], "alljobs"):
                why2 = "the abort signals are not built from the collected indices"
                continue
            ok2, why2 = forall_loop_taken(A, run, v)
            if ok2:
                direct = not any(isinstance(r_, tuple) and r_[0] == "via" for r_ in v["key"][1])
                if direct and not ok1:
                    # no intermediate collection: the signal is built while scanning the jobs; a filter in front of the scan must
                    # keep a job in this state
                    sym = v["key"][0]
                    frs = [f for f in run.by_kind("filter_result") if isinstance(sym, tuple) and f.get("fid") == sym[1] and f["bb"] == sym[2]]
                    if all(f["may_true"] and not f["may_false"] for f in frs):
                        ok1, why1 = True, ""
                    else:
                        why1 = "the filter that selects the jobs to abort can drop a job in this state"
                break
        R.ob("R10.1", "abort_remaining | job in state %s | on every path its index is collected and turned into an abort signal" % A.sname(d),
             ok1 and ok2, detail=why1 if not ok1 else why2)
    # the scan over the jobs has no early exit and the collected signals are all transferred
    run = A.joined_run(ab)
    body = ab
    heads = set(h for (_, h) in body.back_edges())
    nl = 0
    for h in sorted(heads):
        t = body.term(h)
        if t["k"] == "call" and (M.callee_name(t) or "").endswith("::next"):
            nl += 1
            loop = body.natural_loop(h)
            sw = t["t"]
            early = [(b, s_) for b in loop for s_ in body.succs(b) if s_ not in loop and b != sw and body.term(s_)["k"] != "unreachable"]
            R.ob("R10.1", "abort_remaining | loop bb%d visits every element (no early exit)" % h, not early,
                 detail="loop can be left early: %r" % early[:2])
    chains = len([v for v in run.by_kind("collect")]) + len([v for v in run.by_kind("extend")])
    R.floor("R10.1", "loops / total iterator chains in abort_remaining", nl + chains, 1)
    ok_call, _ = must_pass_call(A, body, lambda nm: nm in A.signal_entry_names())
    R.ob("R10.1", "abort_remaining | the queued abort signals are processed before returning", ok_call,
         detail="a path returns without running the signal processor")
    # R10.1b: the abort handler finishes every job, emits nothing, cannot fail -----------------------
    for s in A.JS:
        run = H[(K["abort"], s)]
        ws = [w for w in run.by_kind("write_state") if is_role(w["key"], "sigtarget")]
        tos = set()
        for w in ws:
            tos |= set(w["to"])
        sn = A.sname(s)
        if s in C["Finished"]:
            R.ob("R10.1", "abort handler | %s | a finished job keeps its state" % sn, not ws,
                 detail="a finished job is rewritten to %s" % A.snames(tos))
        else:
            R.ob("R10.1", "abort handler | %s | the job ends finished" % sn, bool(ws) and tos <= C["Finished"],
                 detail="after the abort handler the job is in %s" % (A.snames(tos) or "its old state"))
            R.ob("R10.1", "abort handler | %s | ... and is reported aborted, not failed/upstream-failed/succeeded" % sn,
                 bool(ws) and tos <= C["Aborted"], detail="to-states: %s" % A.snames(tos))
        pushes = [v for v in run.by_kind("push_signal") if v["container"] != "queue"]
        R.ob("R10.1", "abort handler | %s | emits no further signal" % sn, not pushes,
             detail="; ".join("%s at %s" % (sorted(A.kname(k) for k in v["kinds"]), A.site(v)) for v in pushes[:2]))
        sigsyms = set(c[0] for v in ws for c in v["cells"]) or None
        errs = [v for v in run.by_kind("error_construct") if any(is_sig_bound(c) for c in v["cells"])]
        pans = [v for v in run.by_kind("panic") if v.get("possible", True) and any(is_sig_bound(c) for c in v["cells"])]
        R.ob("R10.1", "abort handler | %s | has no error or panic exit" % sn, not errs and not pans,
             detail="; ".join("%s at %s" % (v.get("variant", v.get("kind")), A.site(v)) for v in (errs + pans)[:2]))
    # R10.2: nothing stays offered (ready set) ----------------------------------------------------------
    ready_f, cleanup_f = set_fields(A)
    n = 0
    for s in sorted(C["Ready"]):
        run = H[(K["abort"], s)]
        for w in run.by_kind("write_state"):
            if not is_role(w["key"], "sigtarget"):
                continue
            n += 1
            ok = any(v["op"] == "remove" and v["target"] == ("self", ready_f) and elem_is_key(v["elem"], w["key"]) and connected(A, w, v)
                     for v in run.by_kind("set_op")) or deferred_clear(A, ready_f)
            R.ob("R10.2", "abort handler | %s | the aborted job is taken out of the ready set" % A.sname(s), ok,
                 detail="an offered job is aborted but stays in the set reported by query_ready_to_run()", site=A.site(w))
    R.floor("R10.2", "offered states handled by the abort handler", n, 3)
    # ... 'nothing is ready' is what query_ready_to_run reports: the set follows the Ready class everywhere (= R17.4), not only in
    # the abort handler (a job that leaves the class on another way - a tolerated out-of-order report - must leave the set too)
    from rules_protocol import pairing as _pairing
    _pairing(A, R, "R10.2p", C["Ready"], ("self", ready_f), "ready")
    if C.get("RunningSetField") is not None:
        # 'nothing running' is read off a maintained set: it must follow the Running class on every path (also those that fail a job)
        from rules_protocol import pairing
        pairing(A, R, "R10.2r", C["Running"], ("self", C["RunningSetField"]), "running")
    elif C["RunningQ"] is not None:
        # 'nothing running after the abort' is what query_jobs_running reports: a scan of the job states over exactly the class the
        # abort handler empties (= R5.2); anything else (a table kept on the side) has to be paired with the class
        R.ob("R10.2r", "query_jobs_running is a scan of the job states over exactly the Running class", C["RunningQ"] == C["Running"],
             detail="the report is not derived from the job states: it can name a job as running that the abort (or a failure) finished")
    # R10.3: the evaluation is marked finished so that the history can be obtained --------------------
    isf = A.evaluator_fn("is_finished")
    ok_call, _ = must_pass_call(A, ab, lambda nm: nm == isf.name, lambda nm: "from_residual" in nm)
    R.ob("R10.3", "abort_remaining | every successful return passes through is_finished()", ok_call,
         detail="new_history() refuses (panics) unless the start status was advanced by is_finished()")
    nh = A.evaluator_fn("new_history")
    ss = A.uni.fin[A.L.startstatus]
    s0 = A.initial_start_status()
    # which status does new_history accept?  (observation: the status for which it does not diverge at once)
    acc = []
    for s in ss:
        r = A.run(nh.name, "NH|%s" % A.uni.show(A.L.startstatus, s), dict(self_init={A.L.start_field: fin(A.L.startstatus, [s])}))
        if not r.diverges:
            acc.append(s)
    R.ob("R10.3", "new_history accepts exactly one start status", len(acc) == 1, detail=str([A.uni.show(A.L.startstatus, s) for s in acc]))
    if len(acc) == 1:
        # is_finished with all jobs finished stores exactly that status
        okst = True
        for fs_ in sorted(C["Finished"]):
            r = A.run(isf.name, "ISF10|%s" % A.sname(fs_), dict(self_init={A.L.start_field: fin(A.L.startstatus, [s for s in ss if s != s0 and s != acc[0]] or [acc[0]])},
                                                             default_states=fin(A.L.jobstate, [fs_]), cell_init={"alljobs": fin(A.L.jobstate, [fs_])}))
            st = [v for v in r.by_kind("store_self") if v["proj"][:1] == (("f", A.L.start_field),)]
            okst = okst and bool(st) and all(v["value"][0] == "fin" and set(v["value"][2]) == {acc[0]} for v in st)
            # ... on every path: whatever else the evaluator remembers, with all jobs finished the answer is 'true'
            okst = okst and r.ret is not None and r.ret[0] == "fin" and set(r.ret[2]) == {(1,)}
        R.ob("R10.3", "is_finished advances the start status to the one new_history accepts when all jobs are finished (on every path)", okst,
             detail="with every job finished is_finished() can still answer false / leave the start status alone (e.g. a cached answer): "
                    "new_history() then refuses")
    # R10.4: the history can be assembled for every way a job without output can end (aborted jobs included)
    from rules_compare import rule_history_after_any_outcome
    rule_history_after_any_outcome(A, R, "R10.4")
    R.explanation = ("abort_remaining is analysed with all jobs in each concrete state (unfinished ones get exactly the abort signal, "
                     "loops without early exit, the signal processor is run); the abort handler is analysed from each of the %d states: "
                     "it ends in a finished/aborted state, emits nothing, has no error exit, and removes offered jobs from the ready "
                     "set; the successful return passes through is_finished(), which stores the status new_history requires.  "
                     "Not decided: that none of new_history's internal-error exits can be taken after an abort." % len(A.JS))
    R.assume("clause 3 (history obtainable without error) is decided only up to new_history's start-status check; its InternalError exits need inter-job invariants")


def is_sig_bound(c):
    sym = c[0]
    return isinstance(sym, tuple) and len(sym) > 3 and sym[0] == "b" and sym[3] == "sig"


# =============================================================================================
@prop("C05")
def check_C05(A, R, tier):
    C = A.classes()
    K = kinds(A)
    H = A.handler_runs()
    T = A.transitions()
    ready_f, cleanup_f = set_fields(A)
    # R5.1 each job is started at most once: Running is entered only from Ready, Ready only from phase 0
    n = 0
    for t in T:
        w = t["w"]
        for f in sorted(w["frm"]):
            for to in sorted(w["to"]):
                pf, pt = phase(C, f), phase(C, to)
                if pt in (1, 2) or pf in (1, 2, 3):
                    n += 1
                    ok = pt >= pf and not (pt == 1 and pf >= 1) and not (pt == 2 and pf != 1)
                    R.ob("R5.1", tkey(A, t, f, to), ok,
                         detail="lifecycle phase goes %d -> %d (0 pending, 1 offered, 2 running, 3 finished): a job could be started twice or un-finished" % (pf, pt),
                         site=A.site(w))
    R.floor("R5.1", "transitions touching offered/running/finished", n, 20)
    # R5.2 finished => nothing ready, nothing running
    pairing(A, R, "R5.2", C["Ready"], ("self", ready_f), "ready")
    R.ob("R5.2", "Ready, Running and Finished are pairwise disjoint",
         not (C["Ready"] & C["Finished"]) and not (C["Running"] & C["Finished"]) and not (C["Ready"] & C["Running"]))
    if C["RunningQ"] is not None:
        R.ob("R5.2", "query_jobs_running is a scan of the job states over exactly the Running class", C["RunningQ"] == C["Running"])
    else:
        # the report is a maintained set: it must be paired with the Running class like the ready set with the offered class
        pairing(A, R, "R5.2r", C["Running"], ("self", C["RunningSetField"]), "running")
    # is_finished only reports true when every job is finished (checked with one unfinished class at a time)
    isf = A.evaluator_fn("is_finished")
    ss = A.uni.fin[A.L.startstatus]
    s0 = A.initial_start_status()
    nonfin = frozenset(A.JS) - C["Finished"]
    for s in [x for x in ss if x != s0]:
        sn = A.uni.show(A.L.startstatus, s)
        r = A.run(isf.name, "ISF5|%s" % sn, dict(self_init={A.L.start_field: fin(A.L.startstatus, [s])},
                                                 default_states=fin(A.L.jobstate, nonfin), cell_init={"alljobs": fin(A.L.jobstate, nonfin)}))
        # with only unfinished jobs (and at least one of them) the loop body returns false; true is possible only
        # through the zero-jobs path or a stored final status
        st = [v for v in r.by_kind("store_self") if v["proj"][:1] == (("f", A.L.start_field),)]
        R.info.setdefault("is_finished_runs", []).append(dict(status=sn, stores=len(st)))
    rule_finished_means_all(A, R, "R5.2")
    # R5.3 wake-up (necessary): finishing a job announces it, the announcement reconsiders every downstream
    not_forgotten(A, R, "R5.3")
    n = 0
    for s in sorted(C["Finished"]):
        run = H[(K["done"], s)]
        em = [v for v in run.by_kind("push_signal") if v["container"] != "queue" and K["consider"] in v["kinds"]
              and nbr_parent(v["key"])[1] == "Outgoing" and is_direct_nbr_of_sig(v)]
        okl, why = (False, "no consider signal towards the downstreams")
        for v in em:
            okl, why = forall_loop(A, v)
            if okl:
                break
        n += 1
        R.ob("R5.3", "done handler | %s | every direct downstream may be reconsidered" % A.sname(s), okl, detail=why,
             site=A.site(em[0]) if em else "")
    R.floor("R5.3", "finished states handled by the done handler", n, 10)
    # R5.7 wake-up of parked upstream Ephemerals when a job is finished without having run
    rule_wake_parked_upstreams(A, R, "R5.7")
    rule_flag_change_wakes_upstreams(A, R, "R5.8")
    from rules_c04 import rule_invalidated_is_needed
    rule_invalidated_is_needed(A, R, "R5.9")
    # R5.10 (= R6.6): a failure passed on in a later round cancels the consider signals pending for the downstream: handled after it
    # they end in an internal error that drops the rest of the batch - the failure signals included - and nothing is ever ready again
    from rules_compare import rule_failure_cancels_considers
    rule_failure_cancels_considers(A, R, "R5.10")
    # R5.11 (= R6.12): nothing between the requirement summary and its callers overrides a dependency flagged as needed (the
    # override ends in an internal error for an Always consumer, and the Ephemeral stays parked for good)
    from rules_c04 import rule_summary_wrappers_transparent
    rule_summary_wrappers_transparent(A, R, "R5.11")
    # R5.4 signals emitted while handling are not lost: the local signal list is moved into the queue
    sp = A.signal_processor()
    run = H[(K["done"], sorted(C["Finished"])[0])]
    tfacts = [v for v in run.by_kind("push_signal") if v["container"] == "queue"]
    tfacts += [v for v in run.by_kind("extend") if v["target"] == ("self", A.L.signals_field)]
    R.ob("R5.4", "%s | signals emitted by the handlers are moved into the queue" % short(sp.name), bool(tfacts),
         detail="the local list of new signals is never transferred")
    if tfacts:
        okp = True
        try:
            lfid, lbody, lhead = signal_loop(A, run)
        except Imprecision:
            lfid = None
            okp = False
        for tv in tfacts[:1] if lfid is not None else []:
            tfid = tv.get("fid")
            tfn = run.frames.get(tfid)
            body = A.facts.body(tfn[0]) if tfn else None
            if body is None:
                okp = False
                continue
            tblocks = set(v["bb"] for v in tfacts if v.get("fid") == tfid)
            errs = error_exit_blocks(A, body) | residual_blocks(body)
            # where the handling of the batch ends inside the activation that performs the transfer
            if tfid == lfid:
                loop = body.natural_loop(lhead)
                if tblocks & loop:
                    okp = False
                    continue
                region, cont = loop_region(body, lhead, A)
                start = cont
            else:
                # the batch is handled in a callee: start behind the call that leads there
                start = None
                for c in run.by_kind("call"):
                    if c.get("fid") == tfid:
                        for fr_id, fr_nm in run.frames.items():
                            pass
                chain_probe = None
                for k_, v in run.facts.items():
                    if isinstance(v, dict) and v.get("fid") == lfid:
                        chain_probe = v
                        break
                if chain_probe is not None:
                    pos = run.pos_in(chain_probe, tfid)
                    if pos is not None:
                        start = pos[1]
            if start is None:
                okp = False
                continue
            r = body.reachable(start, tblocks | errs)
            if set(returns_of(body)) & r:
                guarded = any((M.callee_name(body.term(b_)) or "").endswith("::is_empty") for b_ in r if body.term(b_)["k"] == "call")
                okp = okp and guarded
        R.ob("R5.4", "%s | the transfer is on every regular path from the end of the batch to the return" % short(sp.name), okp,
             detail="a path returns without moving the new signals into the queue (and without an emptiness test)")
    # R5.5 (necessary for progress): the requirement summary never passes over an undecided downstream
    rule_undecided_downstream(A, R, "R5.5", "R5.6")
    R.explanation = ("Decided: each job is started at most once (phase typestate over the complete transition relation), and a finished "
                     "evaluation has nothing ready or running (ready-set pairing, disjoint classes, running report is a scan).  "
                     "Necessary conditions for progress: every finishing write announces the job, the announcement reconsiders every "
                     "direct downstream, signals emitted by handlers are moved into the queue.  Liveness itself is not decided.")
    R.assume("'always something ready or running' and termination of the signal fixpoint are not decided statically")


def is_direct_nbr_of_sig(v):
    from rules_protocol import run_roles
    par, d = nbr_parent(v["key"])
    run = v.get("_run")
    if par is None or run is None:
        return False
    return is_role((par, run_roles(run, par)), "sigtarget") or (isinstance(par, tuple) and len(par) > 3 and par[3] == "sig")


# =============================================================================================
def gate_functions(A):
    """local functions f(.., key) -> bool that return false as soon as one Incoming neighbour of the key
    is not finished ('all upstreams done' gates), found by their behaviour"""
    from interp import Interp, Config
    C = A.classes()
    nonfin = frozenset(A.JS) - C["Finished"]
    out = {}
    cands = [A.facts.bodies[n] for n in A.facts.order if A.facts.bodies[n].kind in ("AssocFn", "Fn")]
    for b in cands:
        if b.locals[0]["s"] != "bool" or b.vis == "Public" or b.derived or "tests::" in b.name:
            continue
        if not any(b.locals[i]["s"] == "usize" for i in range(1, b.arg_count + 1)):
            continue
        if not any(blk["term"]["t"]["k"] == "call" and (M.callee_of(blk["term"]["t"]) or ("",))[0].endswith("::neighbors_directed")
                   for blk in b.blocks):
            continue
        res = loop_gate_summary(A, b)
        if res is not None:
            out[b.name] = res
    return out


def loop_gate_summary(A, body):
    """For f(.., key) -> bool with a single neighbour loop: the set of neighbour states for which one
    iteration can complete without returning false; None if the function has no such shape."""
    from interp import Interp, Config, State
    I = Interp(A.facts, A.uni, A.layout, Config(label="GATE"))
    fr, out, col = I.analyze(body)
    ins = col["ins"]
    nb = [v for k, v in I.rec.facts.items() if k[0] == "neighbors" and v["fid"] == fr.fid and v["dir"] == "Incoming"
          and is_role(v["key"], "param")]
    if len(nb) != 1:
        return None
    heads = [h for (_, h) in body.back_edges()]
    heads = [h for h in set(heads) if body.term(h)["k"] == "call" and (M.callee_name(body.term(h)) or "").endswith("::next")]
    if not heads:
        # quantifier form: neighbours(..).all(|n| pred(n)) -- evaluate the predicate once per neighbour state
        qs = [v for k, v in I.rec.facts.items() if k[0] == "quantifier" and v["all"] and v["iter"] is not None
              and v["iter"][1][0] == "nbr" and v["iter"][1][3] == "Incoming"]
        if len(qs) != 1:
            return None
        passing = set()
        for d in A.JS:
            I2 = Interp(A.facts, A.uni, A.layout, Config(label="GATEQ", cell_init={"nbr:Incoming:param": fin(A.L.jobstate, [d])}))
            fr2, out2, col2 = I2.analyze(body)
            q2 = [v for k, v in I2.rec.facts.items() if k[0] == "quantifier" and v["all"]]
            if any(v["may_true"] for v in q2) or not q2:
                passing.add(d)
        return dict(passing=frozenset(passing), dir="Incoming")
    if len(heads) != 1:
        return None
    h = heads[0]
    loop = body.natural_loop(h)
    sw = body.term(h)["t"]
    somes = [s_ for s_ in body.succs(sw) if s_ in loop]
    sym = ("b", fr.fid, h, "nbr")
    cont_ok = set()
    from domain import av_set
    for d in A.JS:
        for s0 in somes:
            if s0 not in ins:
                continue
            st = ins[s0].copy()
            hk = ("job", sym)
            cell = st.heap.get(hk)
            if cell is None or cell[0] != "adt":
                return None
            st.heap[hk] = av_set(cell, (("f", A.L.state_field),), fin(A.L.jobstate, [d]), A.uni)
            col2 = {}
            ex = I.run(fr, st, start=s0, stops={h}, collect=col2)
            # the iteration "passes" if it gets back to the header or returns true
            if h in col2["stops"]:
                cont_ok.add(d)
            if ex is not None:
                rv = ex.locals.get((fr.fid, 0))
                if rv is None or rv[0] != "fin" or (1,) in rv[2]:
                    cont_ok.add(d)
    # with no neighbours at all the result
    return dict(passing=frozenset(cont_ok), dir="Incoming")


@prop("C02")
def check_C02(A, R, tier):
    C = A.classes()
    K = kinds(A)
    H = A.handler_runs()
    T = A.transitions()
    gates = gate_functions(A)
    good_gates = set(n for n, g in gates.items() if g["passing"] <= C["Finished"])
    R.info["gate_functions"] = dict((short(n), A.snames(g["passing"])) for n, g in gates.items())
    R.floor("R2.1", "functions that test 'all direct upstreams finished'", len(good_gates), 1)
    # states that are only ever entered under the gate
    def gated_fact(v, sym):
        for (gk, val) in v.get("ghosts", ()):
            name = gk[0]
            if name.startswith("ret:") and name[4:] in good_gates and str(sym) in gk[2] and val is not None and set(val) == {(1,)}:
                return True
        return False
    gated_states = set(A.JS)
    entered = {}
    for t in T:
        w = t["w"]
        for to in w["to"]:
            if to in w["frm"]:
                continue
            g = False
            # ghosts are recorded with pushes/errors, not with writes: look for the gate in the write's own context
            run = t["run"]
            for (k_, v) in run.items("write_state"):
                pass
            entered.setdefault(to, []).append((t, w))
    # a write is gated if the abstract state at the write knows the gate returned true for the written key
    gated_entry = {}
    for to, lst in entered.items():
        gated_entry[to] = all(write_is_gated(A, t, w, good_gates) for (t, w) in lst)
    R.info["states_entered_only_under_the_gate"] = A.snames([s for s, g in gated_entry.items() if g])
    n = 0
    for (k, s), run in H.items():
        for v in run.by_kind("push_signal"):
            if v["container"] == "queue" or K["ready"] not in v["kinds"]:
                continue
            n += 1
            sym = v["key"][0]
            own = None
            for c in v["cells"]:
                if c[0] == sym:
                    own = c[1]
            ok = gated_fact(v, sym)
            why = "the ready signal is emitted without a successful 'all upstreams finished' test for the same job"
            if not ok and own is not None and all(gated_entry.get(o, False) for o in own):
                ok = True
            R.ob("R2.1", "%s | %s handler from %s | a job is announced ready only after all its direct upstreams finished"
                 % (short(v["fn"]), A.kname(k), A.sname(s)), ok and is_role(v["key"], "sigtarget"),
                 detail=why, site=A.site(v))
    R.floor("R2.1", "emissions of the ready signal", n, 4)
    # the ready signal comes from nowhere else
    for name in list(EVENTS) + ["abort_remaining", "event_startup"]:
        b = A.evaluator_fn(name)
        runs = A.startup_runs() if name == "event_startup" else ([A.joined_run(b)] if name == "abort_remaining" else list(A.event_runs(name).values()))
        has = any(K["ready"] in v["kinds"] for r_ in runs for v in r_.by_kind("push_signal"))
        R.ob("R2.1", "%s | does not announce jobs ready itself" % name, not has)
    # R2.2: Ready is entered only by the ready handler (so the gate above guards every offer), finished is stable (R17.2)
    for t in T:
        w = t["w"]
        for f in sorted(w["frm"]):
            for to in sorted(w["to"]):
                if to in C["Ready"] and f not in C["Ready"]:
                    R.ob("R2.2", tkey(A, t, f, to) + " | only the ready handler offers a job",
                         t["ctx"][0] == "handler" and t["ctx"][1] == K["ready"] and is_role(w["key"], "sigtarget"), site=A.site(w))
                if f in C["Finished"]:
                    R.ob("R2.2", tkey(A, t, f, to) + " | a finished upstream stays finished", to in C["Finished"], site=A.site(w))
    # R2.4: a failed upstream keeps its dependants from being offered: the failure reaches every direct downstream
    rule_failure_propagation(A, R, "R2.4", "R2.4")
    # R2.5: an Ephemeral upstream is not skipped while a consuming downstream can still come to run
    rule_skip_decision(A, R, "R2.5")
    # R2.6: an Ephemeral is offered for cleanup only when every direct downstream has finished (= R13.1): a job offered as ready
    # later can therefore not have an upstream that was already offered for cleanup
    rule_offer_guard(A, R, "R2.6", need_success=False)
    # R2.7: an undecided consumer is never counted as 'does not need the Ephemeral' (= R5.5/R5.6): otherwise the Ephemeral is
    # skipped for good and the consumer is later offered without its input having been executed
    rule_undecided_downstream(A, R, "R2.7", "R2.7")
    # R2.8 (= R4.7, upward direction): the walk that hands 'needed' up a chain of Ephemerals reaches every unfinished Ephemeral
    # upstream whatever the dependency is flagged as already - otherwise the top of the chain is skipped while its consumer runs
    from rules_c04 import rule_walk_reaches_every_ephemeral
    rule_walk_reaches_every_ephemeral(A, R, "R2.8")
    # R2.9 (= R4.8): a validated Ephemeral that learns it is needed while its own upstreams are pending tells them on every path
    from rules_c04 import rule_needed_marks_inputs
    rule_needed_marks_inputs(A, R, "R2.9")
    # R2.10 (= R5.7): the direct upstream Ephemerals that wait for a job's decision - parked, or validated and themselves still
    # waiting - are looked at again when the job is finished without having run
    rule_wake_parked_upstreams(A, R, "R2.10")
    # R2.3: get_job_output reports the field the success event stored
    gjo = A.evaluator_fn("get_job_output")
    r = A.joined_run(gjo)
    R.ob("R2.3", "get_job_output reads the job looked up by its argument", any(v["op"] == "get" and v["target"] == ("self", A.L.idmap_field)
                                                                               for v in r.by_kind("map_op")))
    R.explanation = ("Necessary condition (gate clause): functions that behave as 'all direct upstreams finished' are identified by "
                     "abstractly running one loop iteration per neighbour state; every emission of the ready signal must carry the "
                     "fact that such a gate returned true for the same job (ghost of the call result, refined by the branch) or come "
                     "from a state that is only entered under that gate; only the ready handler enters the offered class, and finished "
                     "states are stable.  Not decided: 'without failure', 'Ephemeral upstream executed and not cleaned up'.")
    R.assume("requirement propagation across the graph (which decides whether an Ephemeral upstream was executed) is not decided")


def write_is_gated(A, t, w, good_gates):
    """is the state write dominated by gate(key)=true?  The gate call's true-edge must dominate the write (or the call
    that leads to it) in the activation that made the gate call."""
    run = t["run"]
    for v in run.by_kind("call"):
        if v["callee"] not in good_gates:
            continue
        com = run.common(v, w)
        if com is None or com[0] != v["fid"]:
            continue
        fidc, fnc, bv, bw = com
        body = A.facts.body(fnc)
        tb = body.term(bv)["t"]
        tt = body.term(tb)
        if tt["k"] != "switch":
            continue
        true_succ = tt["otherwise"]
        if body.dominates(true_succ, bw) and true_succ != tb:
            return True
    return False


# =============================================================================================
# R2.5: the decision to skip a delayed Ephemeral looks at every direct downstream

def downstream_pass_summary(A, body):
    """for a helper f(.., key) -> bool | Result<bool> that inspects the Outgoing neighbours of its key (loop, all/any/find, mapped
    helper ...): the neighbour states d for which the helper can answer true when the job has at least one neighbour and all its
    neighbours are in state d (uniform, non-empty neighbourhood: the trace partition that has no 'zero iterations' blind spot)"""
    from interp import Interp, Config
    I0 = Interp(A.facts, A.uni, A.layout, Config(label="DPS0"))
    fr0, out0, col0 = I0.analyze(body)
    nb = [v for k, v in I0.rec.facts.items() if k[0] == "neighbors" and v["dir"] == "Outgoing" and is_role(v["key"], "param")]
    if not nb:
        return None
    passing = set()
    for d in A.JS:
        cfg = Config(label="DPS", cell_init={"nbr:Outgoing:param": fin(A.L.jobstate, [d])})
        cfg.nonempty_nbrs = True
        I = Interp(A.facts, A.uni, A.layout, cfg)
        fr, out, col = I.analyze(body)
        if out is None:
            continue
        rv = out.locals.get((fr.fid, 0))
        if rv is None:
            return None
        if rv[0] == "fin" and rv[1] == BOOL:
            if (1,) in rv[2]:
                passing.add(d)
        elif rv[0] == "adt" and rv[1] == "std::result::Result":
            vs = adt_variants(rv)
            if 0 in vs:
                p = vs[0][0]
                if p[0] != "fin" or (1,) in p[2]:
                    passing.add(d)
        else:
            passing.add(d)
    return frozenset(passing)


def delayed_states(A):
    """pending states of the cleanup kind (Ephemeral) that are entered only under the 'all upstreams finished' gate: the job is
    parked until it is known whether a downstream needs it"""
    if "_delayed" in A.__dict__:
        return A.__dict__["_delayed"]
    C = A.classes()
    T = A.transitions()
    cleanup_kinds = set(A.kind_of(s) for s in C["CleanupOffered"])
    gates = gate_functions(A)
    good_gates = set(n for n, g in gates.items() if g["passing"] <= C["Finished"])
    entered = {}
    for t in T:
        w = t["w"]
        for to in w["to"]:
            if to not in w["frm"]:
                entered.setdefault(to, []).append((t, w))
    delayed = set(s for s, lst in entered.items() if s not in C["Finished"] and s not in C["Ready"] and s not in C["Running"]
                  and A.kind_of(s) in cleanup_kinds and all(write_is_gated(A, t, w, good_gates) for (t, w) in lst))
    A.__dict__["_delayed"] = delayed
    return delayed


def rule_wake_parked_upstreams(A, R, rule):
    """When a job that was not waiting behind the 'all upstreams finished' gate is finished without having run (upstream failure, or a
    skip decided while upstreams are still pending), Ephemeral upstreams parked in a delayed state may be waiting for exactly this
    decision; nothing else reconsiders them, so the handler must send them a consider signal - on every path, for every delayed state."""
    from rules_compare import skip_kind
    C = A.classes()
    K = kinds(A)
    H = A.handler_runs()
    sk = skip_kind(A)
    delayed = delayed_states(A)
    gated = set(delayed) | set(C["Ready"]) | set(C["Running"])
    reach = A.reach()
    sp = A.signal_processor()
    # states in which the skip signal is emitted for the job itself without the gate having been passed
    gates = gate_functions(A)
    good_gates = set(n for n, g in gates.items() if g["passing"] <= C["Finished"])
    skip_emit = set()
    for s in reach:
        if s in C["Finished"]:
            continue
        for v in H[(K["consider"], s)].by_kind("push_signal"):
            if v["container"] != "queue" and sk in v["kinds"] and is_role(v["key"], "sigtarget"):
                passed = any(gk[0].startswith("ret:") and gk[0][4:] in good_gates and val is not None and set(val) == {(1,)}
                             for (gk, val) in v.get("ghosts", ()))
                if not passed:
                    skip_emit.add(s)
    n = 0
    for hk, label in ((K["upfail"], "upstream-failure"), (sk, "skip")):
        for s in sorted(reach):
            if s in gated or s in C["Running"] or not reachable_without_running(A, s):
                continue
            if hk == sk and s not in skip_emit:
                continue
            run = H[(hk, s)]
            ws = [w for w in run.by_kind("write_state") if is_role(w["key"], "sigtarget") and s in w["frm"] and (set(w["to"]) & C["Finished"])]
            if not ws or not iteration_completes(A, run):
                continue
            w = ws[0]
            ems = [v for v in run.by_kind("push_signal") if v["container"] != "queue" and K["consider"] in v["kinds"]
                   and any(isinstance(r_, tuple) and r_[0] == "nbr" and r_[2] == "Incoming" for r_ in _flat_roles(v["key"][1]))]
            ok, why = bool(ems), "no consider signal is sent to the upstreams of the job"
            if ok:
                okp = False
                for v in ems:
                    com = run.common(w, v)
                    if com is None:
                        continue
                    fidc, fnc, bw, bv = com
                    body = A.facts.body(fnc)
                    errs = error_exit_blocks(A, body) | residual_blocks(body)
                    from rules_protocol import key_binding
                    kb = key_binding(w)
                    outer = kb[1] if (kb is not None and kb[0] == fidc) else None
                    r_ = run.taken_reachable(fidc, bw, ({bv} | errs) - {bw})
                    if bw == bv or not ((outer is not None and outer in r_) or "return" in r_ or (set(returns_of(body)) & r_)):
                        okp = True
                if not okp:
                    ok, why = False, "the handler can end after finishing the job without reconsidering its parked upstreams"
            n += 1
            R.ob(rule, "%s handler | %s | the parked upstream Ephemerals of the finished job are reconsidered (every path)" % (label, A.sname(s)),
                 ok, detail=why + ": an Ephemeral waiting in a delayed state for this job's decision is never looked at again and the "
                                  "evaluation stalls", site=A.site(w))
            # ... for every delayed state the upstream can be parked in
            if ok:
                # (also one that is validated and itself still waiting for its upstreams: it is the one that passes the news on -
                # it marks its own inputs as needed or not - so it has to look again as well)
                from rules_compare import invalidated_states
                inv_ = invalidated_states(A)
                cleanup_kinds_ = set(A.kind_of(x) for x in C["CleanupOffered"])
                waiting = set(x for x in reach if A.kind_of(x) in cleanup_kinds_ and x not in C["Finished"] and x not in C["Ready"]
                              and x not in C["Running"] and x not in inv_ and x not in C["Init"])
                # (not after a skip: a validated upstream that is still waiting consults the summary anyway once its own upstreams
                # are done; after a failure nothing else would tell it that its consumer is gone)
                for d in sorted(set(delayed) | (waiting if hk == K["upfail"] else set())):
                    r2 = A.run(sp.name, "HW|%s|%s|%s" % (A.kname(hk), A.sname(s), A.sname(d)),
                               dict(opaque=[x for x in A.signal_entry_names() if x != sp.name], drain_kinds=fin(A.L.signalkind, [hk]),
                                    cell_init={"sigtarget": fin(A.L.jobstate, [s]), "nbr:Incoming:sigtarget": fin(A.L.jobstate, [d])}))
                    em2 = [v for v in r2.by_kind("push_signal") if v["container"] != "queue" and K["consider"] in v["kinds"]
                           and any(isinstance(r_, tuple) and r_[0] == "nbr" and r_[2] == "Incoming" for r_ in _flat_roles(v["key"][1]))
                           and (is_direct_nbr_of_sig(v) or nbr_parent(v["key"])[0] is None)]      # the direct upstream itself
                    R.ob(rule, "%s handler | %s | an upstream parked in %s is sent a consider signal" % (label, A.sname(s), A.sname(d)), bool(em2),
                         detail="the reconsideration passes over an upstream in the delayed state", site=A.site(w))
    R.floor(rule, "finishing writes of jobs that were not behind the gate", n, 4)


def requirement_field(A):
    """projection of the edge flag that the startup classification declares for the incoming dependencies of every job"""
    projs = set()
    for run in A.startup_runs():
        for w in run.by_kind("write_edge"):
            roles = run.syms.get(w["b"], (frozenset(), None))[0]
            if is_role((w["b"], roles), "topo"):
                projs.add(w["proj"])
    if len(projs) != 1:
        raise Imprecision("cannot identify the 'needed' flag of a dependency (%d candidates)" % len(projs))
    return list(projs)[0]


def _must_follow(A, I2, fr2, body, w_bb, em_blocks):
    """on the CFG edges the run took: from block w_bb every way to the function's return passes one of em_blocks (error exits exempt)"""
    errs = error_exit_blocks(A, body) | residual_blocks(body)
    es = I2.edges.get(fr2.fid, set())
    succ = {}
    for (a_, b2) in es:
        succ.setdefault(a_, []).append(b2)
    if w_bb in em_blocks:
        return True
    seen_, stk = set(), [w_bb]
    while stk:
        x = stk.pop()
        if x in seen_ or (x in em_blocks and x != w_bb) or x in errs:
            continue
        seen_.add(x)
        stk.extend(succ.get(x, ()))
    return "return" not in seen_


def _lift(I2, fr2, x):
    idx = dict(((nm[0], tuple(nm[1])), f) for f, nm in I2.frame_names.items())
    ch = list(x.get("stack") or ()) + [(x["fn"], x["bb"])]
    for i_, (fn_, bb_) in enumerate(ch):
        if idx.get((fn_, tuple(ch[:i_]))) == fr2.fid:
            return bb_
    return None


def rule_flag_change_wakes_upstreams(A, R, rule):
    """The requirement summary of a parked Ephemeral reads the 'needed' flags of its outgoing dependencies.  Whenever the consider logic
    of a job writes those flags on the job's own incoming dependencies, it must reconsider the direct upstreams on every path:
    nothing else tells a parked upstream that the answer it is waiting for has changed.  The consider logic is analysed once per
    validation verdict (trace partition), so that what follows the write is judged under the verdict that led to it."""
    from rules_compare import validation_ty, consider_entry_fns, skip_kind
    from protocol import forced_analysis
    from domain import adt
    C = A.classes()
    K = kinds(A)
    rf = requirement_field(A)
    vt = validation_ty(A)
    uvs = [b for b in A.evaluator_methods() if b.locals[0]["s"].startswith("std::result::Result<%s" % vt)]
    entries = [A.facts.body(n_) for n_ in sorted(consider_entry_fns(A, skip_kind(A)))]
    n = 0
    seen = set()
    for s in sorted(A.reach()):
        if s in C["Finished"] or s in C["Running"] or s in C["Ready"]:
            continue
        for cb in entries:
            parts = [(None, {})]
            for uvb in uvs:
                for v in A.uni.fin[vt]:
                    parts.append((v, {uvb.name: (lambda vv: (lambda I_, st_, fr_, bi_, t_, a_, sp_: [(adt("std::result::Result", {0: (fin(vt, [vv]),)}), st_)]))(v)}))
            for (v, ov) in parts:
                I2, fr2, out2, col2 = forced_analysis(A, cb, ov, cfgd=dict(label="R58", cell_init={"param": fin(A.L.jobstate, [s])}))
                called_uv = any(k[0] == "call" and x["callee"] in [u.name for u in uvs] for k, x in I2.rec.facts.items())
                if v is None and not called_uv:
                    pass            # the verdict plays no role from this state: the unforced run is the only partition
                elif v is None:
                    # only the writes made inside the validation function itself are judged in the unforced run
                    pass
                elif not called_uv:
                    continue
                ws = []
                for k, w in I2.rec.facts.items():
                    if k[0] != "write_edge" or w["proj"] != rf:
                        continue
                    roles = I2.sym_info.get(w["b"], (frozenset(), None))[0]
                    if is_role((w["b"], roles), "param"):
                        ws.append(w)
                ems = [x for k, x in I2.rec.facts.items() if k[0] == "push_signal" and x["container"] != "queue" and K["consider"] in x["kinds"]
                       and any(isinstance(r_, tuple) and r_[0] == "nbr" and r_[2] == "Incoming" for r_ in _flat_roles(x["key"][1]))]
                em_blocks = set(b2 for b2 in (_lift(I2, fr2, x) for x in ems) if b2 is not None)
                for w in ws:
                    in_uv = any(fn_ in [u.name for u in uvs] for (fn_, _bb) in list(w.get("stack") or ()) + [(w["fn"], w["bb"])])
                    if v is None and called_uv and not in_uv:
                        continue          # judged in the per-verdict partitions
                    site = (s, w["fn"], w["bb"])
                    if in_uv:
                        if site in seen:
                            continue
                        seen.add(site)
                        ok, why = _write_in_validation(A, w, s, uvs)
                    else:
                        wb = _lift(I2, fr2, w)
                        ok = wb is not None and bool(ems) and _must_follow(A, I2, fr2, cb, wb, em_blocks)
                        why = ("no consider signal is sent to the upstreams" if not ems else
                               "the consider logic can end after changing the flags without reconsidering the upstreams")
                        if (site, v) in seen:
                            continue
                        seen.add((site, v))
                    n += 1
                    R.ob(rule, "consider logic | %s%s | %s changes the 'needed' flag of the job's incoming dependencies | its direct upstreams are reconsidered"
                         % (A.sname(s), "" if v is None else " | verdict %s" % A.uni.show(vt, v), short(w["fn"])), ok,
                         detail=why + ": a parked upstream Ephemeral whose requirement summary just changed is never looked at again (stall)", site=A.site(w))
    R.floor(rule, "sites in the consider logic that change the 'needed' flag of incoming dependencies", n, 2)


def _write_in_validation(A, w, s, uvs):
    """The flag write `w` lies inside (a callee of) a function that returns the validation verdict: (ok, reason) of 'for every verdict
    the function can still return from the write on, the consider logic (verdict forced) reconsiders the direct upstreams on every path'."""
    from rules_compare import validation_ty, consider_entry_fns, skip_kind
    from protocol import forced_analysis
    from domain import adt
    vt = validation_ty(A)
    K = kinds(A)
    ch = list(w.get("stack") or ()) + [(w["fn"], w["bb"])]
    uvb, bb_in_uv = None, None
    for (fn_, bb_) in ch:
        cand = [u for u in uvs if u.name == fn_]
        if cand:
            uvb, bb_in_uv = cand[0], bb_
            break
    if uvb is None:
        return (False, "internal: write not inside the validation function")
    iu = [i_ for i_, (fn_, _b) in enumerate(ch) if fn_ == uvb.name][0]

    def returns_after(i):
        """return values of ch[i]'s function when execution continues from the write (through the callees below it)"""
        fn_, bb_ = ch[i]
        body = A.facts.body(fn_)
        ov = {}
        if i + 1 < len(ch):
            sub = returns_after(i + 1)
            if sub is None:
                return None
            child = ch[i + 1][0]
            ov[child] = (lambda rvs: (lambda I_, st_, fr_, bi_, t_, a_, sp_: [(rv_, st_.copy()) for rv_ in rvs]))(sub)
        I_, fr_, out_, col_ = forced_analysis(A, body, {}, cfgd=dict(label="R58a"))
        st_ = col_["ins"].get(bb_)
        if st_ is None:
            return None
        I_.models = dict(I_.models)
        I_.models.update(ov)
        I_.run(fr_, st_.copy(), start=bb_)
        rvs = []
        for ex_ in getattr(I_, "last_exits", []):
            rv_ = ex_.locals.get((fr_.fid, 0))
            if rv_ is None:
                return None
            rvs.append(rv_)
        return rvs
    rvs = returns_after(iu)
    verdicts = None
    if rvs is not None:
        verdicts = set()
        for rv in rvs:
            if rv[0] == "adt" and rv[1] == "std::result::Result":
                vs = adt_variants(rv)
                if 0 in vs:
                    if vs[0][0][0] != "fin":
                        verdicts = None
                        break
                    verdicts |= set(vs[0][0][2])
            else:
                verdicts = None
                break
    if verdicts is None:
        return (False, "the verdicts returned after the write are unknown (fail closed)")
    for b_ in sorted(consider_entry_fns(A, skip_kind(A))):
        cb = A.facts.body(b_)
        for v in sorted(verdicts):
            ov = {uvb.name: (lambda vv: (lambda I_, st_, fr_, bi_, t_, a_, sp_: [(adt("std::result::Result", {0: (fin(vt, [vv]),)}), st_)]))(v)}
            I2, fr2, out2, col2 = forced_analysis(A, cb, ov, cfgd=dict(label="R58b", cell_init={"param": fin(A.L.jobstate, [s])}))
            calls = [x for k, x in I2.rec.facts.items() if k[0] == "call" and x["callee"] == uvb.name]
            ems = [x for k, x in I2.rec.facts.items() if k[0] == "push_signal" and x["container"] != "queue" and K["consider"] in x["kinds"]
                   and any(isinstance(r_, tuple) and r_[0] == "nbr" and r_[2] == "Incoming" for r_ in _flat_roles(x["key"][1]))]
            if not calls:
                continue
            if not ems:
                return (False, "with the verdict %s no consider signal is sent to the upstreams" % A.uni.show(vt, v))
            em_blocks = set(b2 for b2 in (_lift(I2, fr2, x) for x in ems) if b2 is not None)
            for c in calls:
                cbb = _lift(I2, fr2, c)
                if cbb is None or not _must_follow(A, I2, fr2, cb, cbb, em_blocks):
                    return (False, "with the verdict %s the consider logic can end without reconsidering the upstreams" % A.uni.show(vt, v))
    return (True, "")


def _flat_roles(roles):
    out = []
    for r in roles:
        if isinstance(r, tuple) and r[0] == "via":
            out.extend(_flat_roles(r[1]))
        else:
            out.append(r)
    return out


def skip_passes(A, s, d, sk):
    """edge-flag combinations under which the consider logic, for a job in the delayed state s whose direct downstreams are all in
    state d (at least one downstream), emits the skip signal for the job"""
    from interp import Interp, Config
    from rules_compare import consider_entry_fns
    from domain import adt as mkadt
    key_ = ("_skip_passes", s, d)
    if key_ in A.__dict__:
        return A.__dict__[key_]
    flag_ty = [f["ty"]["adt"] for f in A.L.edge_fields if f["ty"].get("adt") in A.uni.fin]
    combos = [()]
    for ft in flag_ty:
        combos = [c + (x,) for c in combos for x in A.uni.fin[ft]]
    out = []
    for fn in sorted(consider_entry_fns(A, sk)):
        cb = A.facts.body(fn)
        for combo in combos:
            cfg = Config(label="SKP", cell_init={"param": fin(A.L.jobstate, [s]), "nbr:Outgoing:param": fin(A.L.jobstate, [d])})
            cfg.nonempty_nbrs = True
            I = Interp(A.facts, A.uni, A.layout, cfg)
            from interp import State
            st = State()
            fields, ci = [], 0
            for f in A.L.edge_fields:
                if f["ty"].get("adt") in A.uni.fin:
                    fields.append(fin(f["ty"]["adt"], [combo[ci]]))
                    ci += 1
                else:
                    fields.append(TOP)
            st.heap["__edge_default__"] = mkadt(A.L.edgeinfo, {0: tuple(fields)})
            fr, o_, col = I.analyze(cb, state=st)
            if any(k[0] == "push_signal" and sk in x["kinds"] and is_role(x["key"], "param") for k, x in I.rec.facts.items()):
                out.append(tuple(A.uni.show(t_, x) for t_, x in zip(flag_ty, combo)))
    A.__dict__[key_] = out
    return out


def rule_skip_decision(A, R, rule):
    C = A.classes()
    K = kinds(A)
    H = A.handler_runs()
    T = A.transitions()
    from rules_compare import skip_kind
    sk = skip_kind(A)
    cleanup_kinds = set(A.kind_of(s) for s in C["CleanupOffered"])
    delayed = delayed_states(A)
    R.info["delayed_states"] = A.snames(delayed)
    R.floor(rule, "delayed (gated, undecided) states", len(delayed), 1)

    def can_run(d):
        closure = {d}
        changed = True
        while changed:
            changed = False
            for t in T:
                w = t["w"]
                if w["frm"] & closure:
                    new = set(w["to"]) - closure
                    if new:
                        closure |= new
                        changed = True
        return bool(closure & C["Running"])
    n = 0
    summaries = {}
    for s in sorted(delayed):
        run = H[(K["consider"], s)]
        for v in run.by_kind("push_signal"):
            if v["container"] == "queue" or sk not in v["kinds"] or not is_role(v["key"], "sigtarget"):
                continue
            n += 1
            guards = []
            for c in run.by_kind("call"):
                cb = A.facts.body(c["callee"])
                if cb is None or cb.vis == "Public":
                    continue
                if not (cb.locals[0]["s"] == "bool" or cb.locals[0]["s"].startswith("std::result::Result<bool")):
                    continue
                com = run.common(c, v)
                if com is None or com[0] != c["fid"]:
                    continue        # the test must be made in an activation that (transitively) contains the decision
                cbody = A.facts.body(com[1])
                if not cbody.dominates(com[2], com[3]):
                    continue
                if c["callee"] not in summaries:
                    summaries[c["callee"]] = downstream_pass_summary(A, cb)
                ps = summaries[c["callee"]]
                if ps is not None:
                    guards.append((c["callee"], ps))
            R.ob(rule, "%s | consider handler from %s | the decision to skip the delayed Ephemeral is dominated by a test over all direct downstreams"
                 % (short(v["fn"]), A.sname(s)), bool(guards),
                 detail="no function that inspects every direct downstream dominates the decision to skip", site=A.site(v))
            # one obligation per downstream state: no guard lets a downstream pass that can still come to run (it would then need
            # the Ephemeral's output: an Output/Always consumer directly, an Ephemeral consumer when it is needed itself)
            if not guards:
                continue
            for d in sorted(A.reach()):
                if not can_run(d):
                    continue
                passes = skip_passes(A, s, d, sk)
                R.ob(rule, "%s | consider handler from %s | a direct downstream in %s (it can still come to run) blocks the skip"
                     % (short(v["fn"]), A.sname(s), A.sname(d)), not passes,
                     skey="consider handler | delayed Ephemeral skipped past a downstream %s that can still run" % describe_state(A, d),
                     detail="with all direct downstreams in that state (edge flags %s) the Ephemeral is finished as 'skipped'; the downstream can "
                            "later be found to need it and is then offered although its input was not executed in this evaluation" % (passes[:2],),
                     site=A.site(v))
    R.floor(rule, "skip decisions for delayed Ephemerals", n, 1)


# =============================================================================================
# R5.5: an undecided downstream is never counted as "does not need the Ephemeral"

def requirement_functions(A):
    """helpers f(dag, jobs, key) -> EdgeFlag | Result<EdgeFlag> with one loop over the Outgoing neighbours of the key"""
    flag_tys = set(f["ty"].get("adt") for f in A.L.edge_fields if f["ty"].get("adt") in A.uni.fin)
    out = []
    for b in A.evaluator_methods():
        rt = b.locals[0]
        s = rt["s"]
        ok = rt.get("adt") in flag_tys or any(s.startswith("std::result::Result<%s," % t) for t in flag_tys)
        if ok and b.vis != "Public" and any(b.locals[i]["s"] == "usize" for i in range(1, b.arg_count + 1)):
            out.append(b)
    return out


def flag_answers(av):
    """concrete values of a finite answer `X` / `Result<X, _>` (Ok payload), or None if unknown"""
    if av is None:
        return None
    if av[0] == "fin":
        return set(av[2])
    if av[0] == "adt" and av[1] == "std::result::Result":
        vs = adt_variants(av)
        if 0 not in vs:
            return set()
        p = vs[0][0]
        return set(p[2]) if p[0] == "fin" else None
    return None


def rule_undecided_downstream(A, R, rule, rule_early=None):
    from interp import Interp, Config
    from domain import av_set
    C = A.classes()
    K = kinds(A)
    H = A.handler_runs()
    # undecided: pending states in which the consider handler still consults a comparison (validation not settled)
    undecided = set()
    for s in A.JS:
        if s in C["Finished"] or s in C["Ready"] or s in C["Running"] or s not in A.reach():
            continue
        run = H[(K["consider"], s)]
        if run.by_kind("strategy_call") or run.by_kind("cmp"):
            undecided.add(s)
    R.info["undecided_states"] = A.snames(undecided)
    fns = requirement_functions(A)
    n = 0
    for b in fns:
        I = Interp(A.facts, A.uni, A.layout, Config(label="REQ"))
        fr, out, col = I.analyze(b)
        ins = col["ins"]
        nb = [v for k, v in I.rec.facts.items() if k[0] == "neighbors" and v["fid"] == fr.fid and v["dir"] == "Outgoing" and is_role(v["key"], "param")]
        heads = [h for h in set(h for (_, h) in b.back_edges())
                 if b.term(h)["k"] == "call" and (M.callee_name(b.term(h)) or "").endswith("::next")]
        if len(nb) != 1 or len(heads) != 1:
            continue
        h = heads[0]
        region, cont = loop_region(b, h, A)
        if cont is None:
            continue
        loop = b.natural_loop(h)
        sw = b.term(h)["t"]
        somes = [s_ for s_ in b.succs(sw) if s_ in loop]
        sym = ("b", fr.fid, h, "nbr")
        # accumulators: named locals of a finite type (bool flag or enum answer) assigned both before and inside the loop;
        # their initial values are read off the state in which the loop head is first reached
        asg_in, asg_out = set(), set()
        for blk in b.blocks:
            if blk["cleanup"]:
                continue
            for st in blk["stmts"]:
                if st["k"] == "assign" and not st["p"]["p"]:
                    (asg_in if blk["i"] in region else asg_out).add(st["p"]["l"])
        accs = [l for l in (asg_in & asg_out) if b.local_names.get(l) is not None
                and (b.locals[l]["s"] == "bool" or b.locals[l].get("adt") in A.uni.fin)]
        col0 = {}
        I.run(fr, ins[0].copy(), start=0, stops={h}, collect=col0)
        first = col0["stops"].get(h)
        init = {}
        for l in accs:
            v0 = first.locals.get((fr.fid, l)) if first is not None else None
            if v0 is not None and v0[0] == "fin":
                init[l] = v0
        flag_ty = [f["ty"]["adt"] for f in A.L.edge_fields if f["ty"].get("adt") in A.uni.fin]
        combos = [()]
        for ft in flag_ty:
            combos = [c + (x,) for c in combos for x in A.uni.fin[ft]]
        # the 'nobody needs it' answer: what the function returns when the neighbour loop ends with untouched accumulators
        negative = None
        if rule_early is not None and first is not None:
            nones = [s_ for s_ in b.succs(sw) if s_ not in loop and b.term(s_)["k"] != "unreachable"]
            if len(nones) == 1:
                st0 = first.copy()
                ex0 = I.run(fr, st0, start=nones[0], stops=())
                negative = flag_answers(ex0.locals.get((fr.fid, 0))) if ex0 is not None else None
            R.ob(rule_early, "%s | the answer for 'no downstream left to examine' is a single value" % short(b.name),
                 negative is not None and len(negative) == 1, detail="cannot determine the negative answer of the requirement summary (fail closed)")
            if negative is not None and len(negative) != 1:
                negative = None
        for d in (sorted(A.reach()) if negative is not None else ()):
            early = []
            for combo in combos:
                for s0 in somes:
                    if s0 not in ins:
                        continue
                    st = ins[s0].copy()
                    for l, v in init.items():
                        st.locals[(fr.fid, l)] = v
                    cell = st.heap.get(("job", sym))
                    if cell is None or cell[0] != "adt":
                        continue
                    st.heap[("job", sym)] = av_set(cell, (("f", A.L.state_field),), fin(A.L.jobstate, [d]), A.uni)
                    fields = []
                    ci = 0
                    for f in A.L.edge_fields:
                        if f["ty"].get("adt") in A.uni.fin:
                            fields.append(fin(f["ty"]["adt"], [combo[ci]]))
                            ci += 1
                        else:
                            fields.append(TOP)
                    from domain import adt as mkadt
                    st.heap["__edge_default__"] = mkadt(A.L.edgeinfo, {0: tuple(fields)})
                    for hk in [hk for hk in st.heap if isinstance(hk, tuple) and hk and hk[0] == "edge"]:
                        del st.heap[hk]
                    ex = I.run(fr, st, start=s0, stops={h})
                    if ex is not None:
                        ans = flag_answers(ex.locals.get((fr.fid, 0)))
                        if ans is None or (ans & negative):
                            early.append(tuple(A.uni.show(t_, x) for t_, x in zip(flag_ty, combo)))
            n_early = locals().get("n_early", 0) + 1
            R.ob(rule_early, "%s | a downstream in state %s | does not end the scan with the answer 'not needed'" % (short(b.name), A.sname(d)), not early,
                 detail="with edge flags %s the summary answers 'not needed' without looking at the remaining downstreams, one of which may "
                        "need the Ephemeral: it is then never run and its consumer never offered" % sorted(set(early))[:3])
        for d in (sorted(undecided) if rule is not None else ()):
            silent = []
            for combo in combos:
                for s0 in somes:
                    if s0 not in ins:
                        continue
                    st = ins[s0].copy()
                    for l, v in init.items():
                        st.locals[(fr.fid, l)] = v
                    cell = st.heap.get(("job", sym))
                    if cell is None or cell[0] != "adt":
                        continue
                    st.heap[("job", sym)] = av_set(cell, (("f", A.L.state_field),), fin(A.L.jobstate, [d]), A.uni)
                    fields = []
                    ci = 0
                    for f in A.L.edge_fields:
                        if f["ty"].get("adt") in A.uni.fin:
                            fields.append(fin(f["ty"]["adt"], [combo[ci]]))
                            ci += 1
                        else:
                            fields.append(TOP)
                    from domain import adt as mkadt
                    st.heap["__edge_default__"] = mkadt(A.L.edgeinfo, {0: tuple(fields)})
                    for hk in [hk for hk in st.heap if isinstance(hk, tuple) and hk and hk[0] == "edge"]:
                        del st.heap[hk]
                    col2 = {}
                    I.run(fr, st, start=s0, stops={h}, collect=col2)     # an early return is a definite answer, not silence
                    for b_, s2 in col2["stops"].items():
                        same = all((s2.locals.get((fr.fid, l)) or ("top",))[0] == "fin" and (v[2] & s2.locals[(fr.fid, l)][2]) for l, v in init.items())
                        if same:
                            silent.append(tuple(A.uni.show(t_, x) for t_, x in zip(flag_ty, combo)))
            n += 1
            R.ob(rule, "%s | downstream still undecided (%s) | is never passed over as 'not needed'" % (short(b.name), A.sname(d)), not silent,
                 detail="with edge flags %s an undecided downstream leaves the answer untouched, so the Ephemeral can be judged unnecessary "
                        "while a consumer may still turn out to need it" % sorted(set(silent))[:3])
    if rule is not None:
        R.floor(rule, "requirement-summary functions x undecided downstream states", n, 2)
    if rule_early is not None:
        R.floor(rule_early, "requirement-summary functions with a neighbour loop", sum(1 for o in R.obs if o.rule == rule_early and "single value" in o.key), 1)
