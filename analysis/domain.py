"""Abstract values for the finite-enum abstract interpretation (DESIGN.md A1/A4).

All abstract values are immutable tuples so that abstract states can be compared and hashed:

  TOP                                   unknown
  ('fin', ty, frozenset(concrete), links)  a set of concrete values of a finite local enum / bool
  ('adt', ty, ((variant, (field AVs...)), ...))   tree-shaped value of any other ADT / tuple
  ('ref', root, proj)                   pointer to an abstract location
  ('key', sym, roles, constraint)       a usize that denotes a job (index into the jobs vector)
  ('str', frozenset(provenances))       string-ish value (String, &str, Cow<str>)
  ('int', value|None)
  ('iter', template)                    iterator; template describes the elements
  ('coll', elem AV|None, key AV|None)   locally built collection, summarised by its joined element
  ('clo', def_path, captures)           closure value
  ('fmtarg', AV) / ('fmt', bytes, args) pieces of format_args!
  ('discr', root, proj, snapshot)       result of Rvalue::Discriminant

A concrete value of a finite enum is a tuple (variant_index, field0, field1, ...)."""

TOP = ("top",)
DEAD = ("dead",)     # a heap cell whose key is unbound on this path (identity of join)
BOOL = "bool"


class Universe:
    """Finite universes computed from the ADT table of the crate under analysis."""

    def __init__(self, adts):
        self.adts = adts
        self.fin = {}        # ty -> list of concrete values
        self.variants = {}   # ty -> [variant names]
        self.field_tys = {}  # ty -> [[field ty names] per variant]
        self.fin[BOOL] = [(0,), (1,)]
        self.variants[BOOL] = ["false", "true"]
        self.field_tys[BOOL] = [[], []]
        pending = dict((p, a) for p, a in adts.items() if a["enum"])
        progress = True
        while progress and pending:
            progress = False
            for p, a in list(pending.items()):
                ok = True
                ftys = []
                for v in a["variants"]:
                    row = []
                    for f in v["fields"]:
                        fty = f["ty"].get("adt")
                        if f["ty"]["s"] == "bool":
                            fty = BOOL
                        if fty is None or (fty not in self.fin and fty not in pending):
                            ok = None
                            break
                        if fty not in self.fin:
                            ok = False
                            break
                        row.append(fty)
                    if ok is not True:
                        break
                    ftys.append(row)
                if ok is None:
                    del pending[p]      # not finite
                    progress = True
                elif ok:
                    vals = []
                    for vi, row in enumerate(ftys):
                        combos = [()]
                        for fty in row:
                            combos = [c + (x,) for c in combos for x in self.fin[fty]]
                        for c in combos:
                            vals.append((vi,) + c)
                    self.fin[p] = vals
                    self.variants[p] = [v["name"] for v in a["variants"]]
                    self.field_tys[p] = ftys
                    del pending[p]
                    progress = True

    def is_fin(self, ty):
        return ty in self.fin

    def full(self, ty):
        return ("fin", ty, frozenset(self.fin[ty]), ())

    def show(self, ty, c):
        name = self.variants[ty][c[0]]
        if len(c) == 1:
            return name
        subs = [self.show(self.field_tys[ty][c[0]][i], c[1 + i]) for i in range(len(c) - 1)]
        return "%s(%s)" % (name, ",".join(subs))

    def show_set(self, ty, s):
        return sorted(self.show(ty, c) for c in s)

    def variant_index(self, ty, name):
        return self.variants[ty].index(name)


def fin(ty, values, links=()):
    return ("fin", ty, frozenset(values), tuple(links))


def is_fin(av):
    return av[0] == "fin"


def boolean(values, links=()):
    return ("fin", BOOL, frozenset((1,) if v else (0,) for v in values), tuple(links))


BOOL_TOP = ("fin", BOOL, frozenset([(0,), (1,)]), ())
TRUE = ("fin", BOOL, frozenset([(1,)]), ())
FALSE = ("fin", BOOL, frozenset([(0,)]), ())


def adt(ty, variants):
    """variants: dict variant -> tuple(field AVs)"""
    return ("adt", ty, tuple(sorted((v, tuple(f)) for v, f in variants.items())))


def adt_variants(av):
    return dict(av[2])


def ref(root, proj=()):
    return ("ref", root, tuple(proj))


def key(sym, roles=(), constraint=None):
    return ("key", sym, frozenset(roles), constraint)


def string(provs, shape=()):
    return ("str", frozenset(provs), frozenset(shape))


def strip_links(av):
    if av[0] == "fin" and av[3]:
        return ("fin", av[1], av[2], ())
    return av


MAX_DEPTH = 6


def av_depth(av, d=0):
    if d > MAX_DEPTH:
        return d
    if av[0] == "adt":
        m = d
        for _, fs in av[2]:
            for f in fs:
                m = max(m, av_depth(f, d + 1))
        return m
    if av[0] == "coll":
        m = d
        for x in av[1:]:
            if x is not None:
                m = max(m, av_depth(x, d + 1))
        return m
    return d


def join(a, b):
    if a == b:
        return a
    if a is None:
        return b
    if b is None:
        return a
    ka, kb = a[0], b[0]
    if ka == "dead":
        return b
    if kb == "dead":
        return a
    if ka == "top" or kb == "top":
        return TOP
    if ka != kb:
        return TOP
    if ka == "fin":
        if a[1] != b[1]:
            return TOP
        links = tuple(l for l in a[3] if l in b[3])
        return ("fin", a[1], a[2] | b[2], links)
    if ka == "adt":
        if a[1] != b[1]:
            return TOP
        va, vb = dict(a[2]), dict(b[2])
        out = {}
        for v in set(va) | set(vb):
            if v in va and v in vb:
                fa, fb = va[v], vb[v]
                if len(fa) != len(fb):
                    return TOP
                out[v] = tuple(join(x, y) for x, y in zip(fa, fb))
            else:
                out[v] = va.get(v, vb.get(v))
        return adt(a[1], out)
    if ka == "key":
        sym = a[1] if a[1] == b[1] else None
        if a[3] is None or b[3] is None:
            c = None
        else:
            c = join(a[3], b[3])
        return ("key", sym, a[2] | b[2], c)
    if ka == "str":
        return ("str", a[1] | b[1], a[2] & b[2])
    if ka == "int":
        if len(a) > 2 and len(b) > 2 and a[2] == b[2]:
            return ("int", None, a[2])
        return ("int", None)
    if ka == "coll":
        must = lambda x: x == "ne" or (isinstance(x, tuple) and x and x[0] == "total")
        # 'known to be non-empty' / 'holds exactly what this iterator yields' are must-properties: they survive a join only if
        # both sides have them
        tags = frozenset(x for x in (a[3] | b[3]) if not must(x)) | frozenset(x for x in a[3] if must(x) and x in b[3])
        ta = [x for x in a[3] if isinstance(x, tuple) and x and x[0] == "total"]
        tb = [x for x in b[3] if isinstance(x, tuple) and x and x[0] == "total"]
        if len(ta) == 1 and len(tb) == 1 and ta[0] != tb[0]:
            jt = join_tmpl(ta[0][1], tb[0][1])       # the same source seen with different role sets
            if jt is not None and jt[0] == ta[0][1][0]:
                tags = tags | {("total", jt)}
        return ("coll", join(a[1], b[1]), join(a[2], b[2]), frozenset(tags))
    if ka == "iter":
        t = join_tmpl(a[1], b[1])
        return TOP if t is None else ("iter", t)
    if ka == "shapefacts":
        return ("shapefacts", a[1] & b[1])
    if ka == "obj" or ka == "bytes" or ka == "fnref":
        return TOP
    if ka == "fmtarg":
        return ("fmtarg", join(a[1], b[1]))
    return TOP


def join_tmpl(x, y):
    """join of two iterator templates of the same shape (role sets are united, element values joined)"""
    if x == y:
        return x
    # ("fresh", t): an iterator that is known to yield at least once and has not been stepped yet; the join forgets that
    if isinstance(x, tuple) and x and x[0] == "fresh" and not (isinstance(y, tuple) and y and y[0] == "fresh"):
        return join_tmpl(x[1], y)
    if isinstance(y, tuple) and y and y[0] == "fresh" and not (isinstance(x, tuple) and x and x[0] == "fresh"):
        return join_tmpl(x, y[1])
    if isinstance(x, tuple) and isinstance(y, tuple) and x and y and {x[0], y[0]} == {"nbr", "av"}:
        # the neighbours of a job enumerated directly on one path and out of a local collection on the other
        n_, a_ = (x, y) if x[0] == "nbr" else (y, x)
        return ("av", join(a_[1], ("key", None, frozenset([("via", frozenset([("nbr", n_[1], n_[3])]))]), None)))
    if not (isinstance(x, tuple) and isinstance(y, tuple)) or len(x) != len(y) or x[0] != y[0]:
        return None
    out = [x[0]]
    for p, q in zip(x[1:], y[1:]):
        if p == q:
            out.append(p)
        elif isinstance(p, frozenset) and isinstance(q, frozenset):
            out.append(p | q)
        elif isinstance(p, tuple) and isinstance(q, tuple) and p and q and "fresh" in (p[0], q[0]) and p[0] != q[0]:
            # the source below an adaptor: stepped on one path, not yet on the other
            r = join_tmpl(p, q)
            if r is None:
                return None
            out.append(r)
        elif isinstance(p, tuple) and isinstance(q, tuple) and p and q and isinstance(p[0], str) and p[0] == q[0] and \
                p[0] in ("av", "nbr", "enum", "filter", "map", "filter_map", "pairs", "jobs", "fresh", "nbredges", "zip"):
            r = join_tmpl(p, q)
            if r is None:
                return None
            out.append(r)
        elif (p is None or (isinstance(p, tuple) and p and isinstance(p[0], str))) and (q is None or (isinstance(q, tuple) and q and isinstance(q[0], str))):
            out.append(join(p, q))
        else:
            return None
    return tuple(out)


def leq(a, b):
    return join(a, b) == b


# ---- navigation inside tree-shaped values ------------------------------------------------

def fin_follow(c, proj):
    """Follow a projection inside one concrete value; None if a downcast does not match."""
    for e in proj:
        if e[0] == "v":
            if c[0] != e[1]:
                return None
        elif e[0] == "f":
            c = c[1 + e[1]]
        else:
            return None
    return c


def av_get(av, proj, uni):
    """Read the sub-value of `av` at `proj` (elements ('f', i) and ('v', variant))."""
    i = 0
    n = len(proj)
    while i < n:
        if av[0] == "top":
            return TOP
        e = proj[i]
        if av[0] == "fin":
            ty = av[1]
            rest = proj[i:]
            vals = set()
            cur_ty = ty
            last_variant = None
            for x in rest:
                if x[0] == "v":
                    last_variant = x[1]
                elif x[0] == "f":
                    if last_variant is None:
                        return TOP
                    cur_ty = uni.field_tys[cur_ty][last_variant][x[1]]
                    last_variant = None
                else:
                    return TOP
            for c in av[2]:
                r = fin_follow(c, rest)
                if r is not None:
                    vals.add(r)
            return ("fin", cur_ty, frozenset(vals), ())
        if av[0] == "adt":
            vs = dict(av[2])
            if e[0] == "v":
                if e[1] in vs:
                    av = ("adt", av[1], ((e[1], vs[e[1]]),))
                else:
                    return None  # infeasible downcast
            elif e[0] == "f":
                if len(vs) == 1:
                    fs = list(vs.values())[0]
                    if e[1] < len(fs):
                        av = fs[e[1]]
                    else:
                        return TOP
                else:
                    r = None
                    for fs in vs.values():
                        if e[1] < len(fs):
                            r = join(r, fs[e[1]])
                    av = r if r is not None else TOP
            else:
                return TOP
            i += 1
            continue
        if av[0] == "ref" and e[0] == "f":
            # smart-pointer wrappers (Box/Unique/NonNull) are carried as the reference itself
            i += 1
            continue
        return TOP
    return av


def av_set(av, proj, new, uni, weak=False):
    """Functional update of `av` at `proj`.  Falls back to TOP when the shape is unknown."""
    if not proj:
        return join(av, new) if weak else new
    if av is None or av[0] == "top":
        return TOP
    e = proj[0]
    if av[0] == "adt":
        vs = dict(av[2])
        if e[0] == "v":
            if e[1] in vs:
                sub = ("adt", av[1], ((e[1], vs[e[1]]),))
                upd = av_set(sub, proj[1:], new, uni, weak)
                if upd[0] != "adt":
                    return TOP
                nvs = dict(vs)
                nvs.update(dict(upd[2]))
                return adt(av[1], nvs)
            return av
        if e[0] == "f":
            nvs = {}
            for v, fs in vs.items():
                if e[1] >= len(fs):
                    return TOP
                fs = list(fs)
                fs[e[1]] = av_set(fs[e[1]], proj[1:], new, uni, weak or len(vs) > 1)
                nvs[v] = tuple(fs)
            return adt(av[1], nvs)
    return TOP


def av_restrict(av, proj, variants, uni):
    """Keep only the part of `av` whose sub-value at `proj` has a variant in `variants`.
    Returns None if nothing is left (infeasible)."""
    if av[0] == "top":
        return av
    if av[0] == "fin":
        keep = set()
        for c in av[2]:
            r = fin_follow(c, proj)
            if r is not None and r[0] in variants:
                keep.add(c)
        if not keep:
            return None
        return ("fin", av[1], frozenset(keep), ())
    if av[0] == "adt":
        vs = dict(av[2])
        if not proj:
            nvs = dict((v, f) for v, f in vs.items() if v in variants)
            if not nvs:
                return None
            return adt(av[1], nvs)
        e = proj[0]
        if e[0] == "v":
            if e[1] not in vs:
                return None
            sub = ("adt", av[1], ((e[1], vs[e[1]]),))
            r = av_restrict(sub, proj[1:], variants, uni)
            if r is None:
                return None
            return r   # other variants are impossible at this program point
        if e[0] == "f":
            nvs = {}
            for v, fs in vs.items():
                if e[1] >= len(fs):
                    nvs[v] = fs
                    continue
                r = av_restrict(fs[e[1]], proj[1:], variants, uni)
                if r is None:
                    continue
                fs = list(fs)
                fs[e[1]] = r
                nvs[v] = tuple(fs)
            if not nvs:
                return None
            return adt(av[1], nvs)
    return av


def discr_values(av, uni):
    """Set of possible discriminants of av, or None if unknown."""
    if av is None:
        return set()
    if av[0] == "fin":
        return set(c[0] for c in av[2])
    if av[0] == "adt":
        return set(v for v, _ in av[2])
    return None
