"""Thorough tier: test the checker both ways on scratch copies of /repo (outside /repo and /verif, removed afterwards).

  must fire        every confirmed seeded change that the property's check is known to catch (seeded/MATRIX.json)
  must stay silent every behaviour-preserving refactoring of seeded/refactorings/

The results describe the *checker*, not the tree: they are reported in the evidence and on stderr, they never produce a
VIOLATION line for /repo."""
import json
import multiprocessing
import os
import shutil
import subprocess
import sys
import tempfile
import time

sys.path.insert(0, os.path.dirname(os.path.abspath(__file__)))
VERIF = os.path.dirname(os.path.dirname(os.path.abspath(__file__)))


def _analyse(job):
    (prop, name, kind, facts_path) = job
    import framework
    import protocol
    import main as M
    from interp import Imprecision
    reg = M.registry()
    R = framework.Report(prop, "other")
    t0 = time.time()
    try:
        A = protocol.Analysis(facts_path, jobs=1)
        reg[prop](A, R, "quick")
        for r in A.runs.values():
            if r.err:
                R.ob("A1", "analysis error %s" % r.label, False, detail=r.err)
    except Imprecision as e:
        R.ob("A0", "fail closed: %s" % e, False)
    except Exception as e:
        R.ob("A0", "internal error %s: %s" % (type(e).__name__, e), False)
    known = framework.load_known()
    kk = set((f["property"], f["key"]) for f in known.get("findings", []))
    failing = [o for o in R.obs if not o.ok and (prop, o.key) not in kk and not (o.skey and (prop, o.skey) in kk)]
    return (name, kind, len(R.obs), [o.key for o in failing][:5], round(time.time() - t0, 1))


def _extract_worker(arg):
    """one worker: its own scratch copy of the repository and its own cargo target directory"""
    (wi, chunk, repo, cdir, base_hash, scratch) = arg
    import hashlib
    import extract
    if wi > 0:
        os.environ["VERIF_TARGET_SUFFIX"] = "-w%d" % wi
    base = os.path.join(scratch, "repo%d" % wi)
    subprocess.check_call(["rsync", "-a", "--exclude", "target", "--exclude", ".git", repo + "/", base + "/"])
    done, skipped = [], []
    for (name, patch, fp) in chunk:
        shutil.rmtree(os.path.join(base, "src"), ignore_errors=True)
        shutil.copytree(os.path.join(repo, "src"), os.path.join(base, "src"))
        r = subprocess.run(["git", "apply", "--unsafe-paths", "--directory", base, patch], cwd="/", capture_output=True, text=True)
        if r.returncode != 0:
            r = subprocess.run(["patch", "-p1", "-s", "-d", base, "-i", patch], capture_output=True, text=True)
            if r.returncode != 0:
                skipped.append((name, "patch does not apply to the current tree"))
                continue
        try:
            path, key, dt, _was_cached = extract.extract("lib", repo=base)
        except Exception as e:
            skipped.append((name, "does not build: %s" % str(e)[:100]))
            continue
        shutil.copy(path, fp + ".tmp")
        os.replace(fp + ".tmp", fp)
        try:
            os.remove(path)
        except OSError:
            pass
        done.append((name, fp))
    return done, skipped


def extract_many(named_patches, repo="/repo", workers=8):
    """facts of every patch applied to a scratch copy of `repo` (cached by tree hash + patch hash under .cache/corpus; missing
    ones are extracted by up to `workers` processes in parallel).  -> ([(name, facts path)], [(name, why skipped)])"""
    import hashlib
    import extract
    cdir = os.path.join(VERIF, ".cache", "corpus")
    os.makedirs(cdir, exist_ok=True)
    extract.REPO = repo
    base_hash = extract.input_hash("lib")
    have, need = [], []
    for (name, patch) in named_patches:
        ph = hashlib.sha256(open(patch, "rb").read()).hexdigest()[:16]
        fp = os.path.join(cdir, "%s-%s-%s.json" % (name, base_hash, ph))
        if os.path.isfile(fp):
            have.append((name, fp))
        else:
            need.append((name, patch, fp))
    skipped = []
    if need:
        scratch = tempfile.mkdtemp(prefix="ppg-selftest-")
        try:
            n = max(1, min(workers, len(need) // 4 or 1))
            cache = os.path.dirname(cdir)
            main_target = os.path.join(cache, "target-lib")
            for wi in range(1, n):
                wt = os.path.join(cache, "target-lib-w%d" % wi)
                if not os.path.isdir(wt) and os.path.isdir(main_target):
                    subprocess.call(["cp", "-a", main_target, wt])       # dependencies are already built there
            chunks = [need[i::n] for i in range(n)]
            args = [(wi, chunks[wi], repo, cdir, base_hash, scratch) for wi in range(n)]
            if n == 1:
                results = [_extract_worker(args[0])]
            else:
                ctx = multiprocessing.get_context("fork")
                with ctx.Pool(n) as pool:
                    results = pool.map(_extract_worker, args, chunksize=1)
            for (done, sk) in results:
                have += done
                skipped += sk
        finally:
            shutil.rmtree(scratch, ignore_errors=True)
            extract.REPO = repo
            os.environ.pop("VERIF_TARGET_SUFFIX", None)
    order = dict((n_, i) for i, (n_, _p) in enumerate(named_patches))
    have.sort(key=lambda x: order.get(x[0], 0))
    return have, skipped


def run(prop, repo="/repo", limit=None):
    import extract
    seeds_dir = os.path.join(VERIF, "seeded")
    matrix = {}
    mp = os.path.join(seeds_dir, "MATRIX.json")
    if os.path.isfile(mp):
        matrix = json.load(open(mp))
    items = []
    for s in sorted(matrix):
        if prop in matrix[s].get("caught_by", []) or matrix[s].get("property") == prop:
            items.append((s, "seed", os.path.join(seeds_dir, s, "patch.diff")))
    rdir = os.path.join(seeds_dir, "refactorings")
    if os.path.isdir(rdir):
        for s in sorted(os.listdir(rdir)):
            p = os.path.join(rdir, s, "patch.diff")
            if os.path.isfile(p):
                items.append((s, "refactoring", p))
    if limit:
        items = items[:limit]
    import extract
    extract.ensure_driver()
    extract.REPO = repo
    todo, skipped = extract_many([(n_, p_) for (n_, k_, p_) in items], repo)
    kinds_ = dict((n_, k_) for (n_, k_, p_) in items)
    jobs = [(prop, n_, kinds_[n_], fp_) for (n_, fp_) in todo]
    ctx = multiprocessing.get_context("fork")
    with ctx.Pool(min(12, max(1, len(jobs)))) as pool:
        res = pool.map(_analyse, jobs, chunksize=1)
    out = dict(must_fire=[], must_stay_silent=[], skipped=skipped)
    for (name, kind, nobs, failing, dt) in res:
        if kind == "seed":
            expected = prop in matrix.get(name, {}).get("caught_by", [])
            out["must_fire"].append(dict(seed=name, fired=bool(failing), expected_to_fire=expected, first=failing[:1], obligations=nobs, s=dt))
        else:
            out["must_stay_silent"].append(dict(refactoring=name, silent=not failing, alarms=failing[:2], obligations=nobs, s=dt))
    return out


if __name__ == "__main__":
    r = run(sys.argv[1], limit=int(sys.argv[2]) if len(sys.argv) > 2 else None)
    print(json.dumps(r, indent=1))
