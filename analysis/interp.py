"""A1: finite-enum abstract interpretation over the serialized MIR.

A worklist dataflow over each body with inlining of crate-local callees (recursion and
functions named in `Config.opaque` are summarised).  The interpreter knows nothing about
individual properties: it only *records* facts (state writes, emissions, set/map operations,
strategy calls, error constructions, panics, stores) through `Recorder`; rules consume them."""
import re
from domain import (TOP, BOOL, BOOL_TOP, TRUE, FALSE, Universe, fin, boolean, adt, ref, key, string, join,
                    av_get, av_set, av_restrict, discr_values, adt_variants, strip_links)
import mir as M


class Imprecision(Exception):
    pass


class Layout:
    """Structural identification of the evaluator's types (no names of states or handlers)."""

    def __init__(self, facts, uni):
        self.facts = facts
        self.uni = uni
        ev = [b for b in facts.find("::event_startup") if b.kind == "AssocFn" and "PPGEvaluator" in b.name]
        if not ev:
            raise Imprecision("anchor missing: event_startup")
        self_ty = ev[0].locals[1]["ref"]
        self.evaluator = self_ty["adt"]
        ea = facts.adts[self.evaluator]
        self.self_fields = ea["variants"][0]["fields"]
        self.f = {}
        for i, f in enumerate(self.self_fields):
            s = f["ty"]["s"]
            self.f.setdefault(s, []).append(i)
        # NodeInfo = element type of the Vec<local struct> field
        self.nodeinfo = None
        self.jobs_field = None
        for i, f in enumerate(self.self_fields):
            m = re.match(r"^std::vec::Vec<(.+)>$", f["ty"]["s"])
            if m and m.group(1) in facts.adts and not facts.adts[m.group(1)]["enum"]:
                if self.nodeinfo is not None:
                    raise Imprecision("two Vec<struct> fields in the evaluator")
                self.nodeinfo = m.group(1)
                self.jobs_field = i
        if self.nodeinfo is None:
            raise Imprecision("anchor missing: jobs vector")
        ni = facts.adts[self.nodeinfo]["variants"][0]["fields"]
        self.ni_fields = ni
        st = [i for i, f in enumerate(ni) if f["ty"].get("adt") in uni.fin]
        if len(st) != 1:
            raise Imprecision("cannot identify the job-state field of %s" % self.nodeinfo)
        self.state_field = st[0]
        self.jobstate = ni[self.state_field]["ty"]["adt"]
        ho = [i for i, f in enumerate(ni) if f["ty"]["s"] == "std::option::Option<std::string::String>"]
        self.histout_field = ho[0] if len(ho) == 1 else None
        ji = [i for i, f in enumerate(ni) if f["ty"]["s"] == "std::string::String"]
        self.jobid_field = ji[0] if len(ji) == 1 else None
        self.bool_fields = [i for i, f in enumerate(ni) if f["ty"]["s"] == "bool"]

        usage = {}

        def field_usage():
            """in how many method bodies of the evaluator is each of its fields mentioned?"""
            if usage:
                return usage
            pre = self.evaluator.split("<")[0] + "::"
            for nm in facts.order:
                b = facts.bodies[nm]
                if not nm.startswith(pre) or b.kind == "Promoted" or not b.locals or len(b.locals) < 2:
                    continue
                if b.locals[1]["s"].lstrip("&").replace("mut ", "").split("<")[0] != self.evaluator.split("<")[0]:
                    continue
                seen_f = set()

                def visit_place(pl):
                    if pl is not None and pl.get("l") == 1:
                        fs = [e for e in pl["p"] if e["k"] == "field"]
                        if fs:
                            seen_f.add(fs[0]["i"])
                for blk in b.blocks:
                    for st_ in blk["stmts"]:
                        if st_["k"] != "assign":
                            continue
                        visit_place(st_["p"])
                        r_ = st_["r"]
                        if r_["k"] in ("ref", "rawptr", "discr", "len"):
                            visit_place(r_["p"])
                        for key_ in ("o", "a", "b"):
                            o_ = r_.get(key_)
                            if isinstance(o_, dict):
                                visit_place(o_.get("copy") or o_.get("move"))
                        for o_ in r_.get("fields", ()) if r_["k"] == "agg" else ():
                            visit_place(o_.get("copy") or o_.get("move"))
                    t_ = blk["term"]["t"]
                    if t_["k"] == "call":
                        for o_ in t_["args"]:
                            visit_place(o_.get("copy") or o_.get("move"))
                for i_ in seen_f:
                    usage[i_] = usage.get(i_, 0) + 1
            return usage

        def one(pred, what):
            xs = [i for i, f in enumerate(self.self_fields) if pred(f["ty"]["s"])]
            if len(xs) > 1:
                # several fields of that type (e.g. a cache added next to the original): the one the evaluator's methods mention
                # most is the structure itself - if that is clear-cut
                u = field_usage()
                ranked = sorted(xs, key=lambda i_: -u.get(i_, 0))
                if u.get(ranked[0], 0) >= 2 * max(1, u.get(ranked[1], 0)):
                    return ranked[0]
            if len(xs) != 1:
                raise Imprecision("cannot identify evaluator field: %s (%r)" % (what, xs))
            return xs[0]
        self.dag_field = one(lambda s: s.startswith("petgraph::graphmap::GraphMap<"), "dag")
        m = re.match(r"^petgraph::graphmap::GraphMap<usize, (.+), .+>$", self.self_fields[self.dag_field]["ty"]["s"])
        self.edgeinfo = m.group(1) if m else None
        if self.edgeinfo not in facts.adts:
            raise Imprecision("cannot identify the edge weight type")
        self.edge_fields = facts.adts[self.edgeinfo]["variants"][0]["fields"]
        self.idmap_field = one(lambda s: s == "std::collections::HashMap<std::string::String, usize>", "id map")
        self.history_field = one(lambda s: s == "std::collections::HashMap<std::string::String, std::string::String>", "history")
        self.signals_field = one(lambda s: s.startswith("std::collections::VecDeque<"), "signal queue")
        self.signal_ty = re.match(r"^std::collections::VecDeque<(.+)>$", self.self_fields[self.signals_field]["ty"]["s"]).group(1)
        self.sets = [i for i, f in enumerate(self.self_fields) if f["ty"]["s"] == "std::collections::HashSet<std::string::String>"]
        self.start_field = None
        for i, f in enumerate(self.self_fields):
            a = f["ty"].get("adt")
            if a in uni.fin and a in facts.adts:
                if self.start_field is not None:
                    raise Imprecision("two finite-enum fields in the evaluator")
                self.start_field = i
        self.startstatus = self.self_fields[self.start_field]["ty"]["adt"]
        self.topo_field = one(lambda s: s == "std::option::Option<std::vec::Vec<usize>>", "topo")
        sg = facts.adts[self.signal_ty]["variants"][0]["fields"]
        self.sig_kind_field = [i for i, f in enumerate(sg) if f["ty"].get("adt") in uni.fin][0]
        self.sig_node_field = [i for i, f in enumerate(sg) if f["ty"]["s"] == "usize"][0]
        self.signalkind = sg[self.sig_kind_field]["ty"]["adt"]
        self.strategy_field = one(lambda s: s == "T", "strategy")
        # JobKind: the finite enum taken by add_node
        self.error_ty = "PPGEvaluatorError"

    def self_loc(self, i):
        return (("self",), (("f", i),))


class Config:
    def __init__(self, label="", opaque=(), cell_init=None, drain_kinds=None, self_init=None, inline_depth=12):
        self.label = label
        self.opaque = set(opaque)
        self.cell_init = cell_init or {}      # role tag -> fin set of job states
        self.drain_kinds = drain_kinds        # restrict the kind of signals taken from the queue
        self.self_init = self_init or {}      # self field index -> AV
        self.inline_depth = inline_depth
        self.default_states = None            # fin set used for cells without a partition


class Recorder:
    def __init__(self):
        self.facts = {}
        self.notes = {}

    def put(self, kind, sitekey, data):
        data["fid"] = sitekey[1]
        self.facts[(kind,) + sitekey] = data

    def note(self, kind, msg):
        self.notes.setdefault(kind, set()).add(msg)

    def by_kind(self, kind):
        return [(k, v) for k, v in self.facts.items() if k[0] == kind]


class State:
    """abstract state; `token` is a trace-partition token of the current activation (the variant of the value just
    stored in the return place), so that paths returning different variants are not joined before the return"""
    __slots__ = ("locals", "heap", "written", "token")
    interp = None

    def __init__(self, locals_=None, heap=None, written=frozenset(), token=None):
        self.locals = locals_ if locals_ is not None else {}
        self.heap = heap if heap is not None else {}
        self.written = written
        self.token = token

    def copy(self):
        return State(dict(self.locals), dict(self.heap), self.written, self.token)

    def __eq__(self, o):
        return self.locals == o.locals and self.heap == o.heap and self.written == o.written and self.token == o.token


def join_state(a, b):
    if a is None:
        return b
    if b is None:
        return a
    if a is b:
        return a
    loc = {}
    for k in a.locals.keys() | b.locals.keys():
        x = a.locals.get(k)
        y = b.locals.get(k)
        if x is None:
            loc[k] = y
        elif y is None:
            loc[k] = x
        else:
            loc[k] = x if x is y else join(x, y)
    heap = {}
    for k in a.heap.keys() | b.heap.keys():
        x = a.heap.get(k)
        y = b.heap.get(k)
        if x is None or y is None:
            # a cell that was not yet materialised on one side carries its (lazy) default there
            side = a if x is None else b
            other = x if x is not None else y
            if other[0] == "dead":
                heap[k] = other
                continue
            d = State.interp.lazy_default(k, side)
            heap[k] = other if d is None else join(other, d)
        else:
            heap[k] = x if x is y else join(x, y)
    return State(loc, heap, a.written | b.written, a.token if a.token == b.token else None)


class Frame:
    __slots__ = ("fid", "body", "stack", "depth")

    def __init__(self, fid, body, stack):
        self.fid = fid
        self.body = body
        self.stack = stack
        self.depth = len(stack)


class Interp:
    def __init__(self, facts, uni=None, layout=None, config=None, recorder=None):
        self.facts = facts
        self.uni = uni or Universe(facts.adts)
        self.layout = layout or Layout(facts, self.uni)
        self.cfg = config or Config()
        self.rec = recorder or Recorder()
        self.frame_ids = {}
        self.frame_names = {}
        self.promoted_cache = {}
        self.mod_cache = {}
        self.region_hooks = {}
        import models
        self.models = models.MODELS
        self.models_mod = models
        self.js_full = self.uni.full(self.layout.jobstate)
        self.sym_info = {}
        self.errvar_cache = {}
        self.edges = {}
        self.cur_token = None
        self.fuse_tag = None
        self.last_exits = []
        State.interp = self

    # ---- frames ----------------------------------------------------------------------
    def new_frame(self, body, stack):
        k = (body.name, stack)
        if k not in self.frame_ids:
            self.frame_ids[k] = len(self.frame_ids)
            self.frame_names[self.frame_ids[k]] = k
        return Frame(self.frame_ids[k], body, stack)

    # ---- heap ------------------------------------------------------------------------
    def default_root(self, root, state=None, lazy=False):
        L = self.layout
        if root[0] == "edge":
            if state is not None and "__edge_default__" in state.heap:
                return state.heap["__edge_default__"]
            return adt(L.edgeinfo, {0: tuple(self.typed(TOP, f["ty"]) for f in L.edge_fields)})
        if root[0] == "ghost":
            return BOOL_TOP
        if root[0] == "shape":
            return ("shapefacts", frozenset())
        if root[0] == "job":
            sym = root[1]
            roles = root[2] if len(root) > 2 else frozenset()
            st = None
            extra = None
            for tag in self.common_role_tags(roles):
                if tag in self.cfg.cell_init:
                    st = self.cfg.cell_init[tag]
                    if isinstance(st, dict):
                        extra = st
                        st = extra.get("state")
            constraint = root[3] if len(root) > 3 else None
            if st is None:
                st = self.cfg.default_states or self.js_full
            if lazy and state is not None and state.written and st[2] != self.js_full[2]:
                st = fin(self.layout.jobstate, st[2] | state.written)
            if constraint is not None and state is not None:
                allowed = constraint[2] | state.written
                st = fin(self.layout.jobstate, st[2] & allowed)
            fields = []
            for i, f in enumerate(L.ni_fields):
                if i == L.state_field:
                    fields.append(st)
                elif i == L.jobid_field:
                    fields.append(string([("jobid", sym)]))
                elif i == L.histout_field:
                    vs = {0: (), 1: (string([("histout", sym)]),)}
                    if extra is not None and extra.get("histout") is not None:
                        vs = {extra["histout"]: vs[extra["histout"]]}
                    fields.append(adt("std::option::Option", vs))
                elif f["ty"]["s"] == "bool":
                    if extra is not None and i in (extra.get("bools") or {}):
                        fields.append(boolean([extra["bools"][i]]))
                    else:
                        fields.append(BOOL_TOP)
                else:
                    fields.append(TOP)
            return adt(L.nodeinfo, {0: tuple(fields)})
        if root == ("self",):
            fields = []
            for i, f in enumerate(L.self_fields):
                if i in self.cfg.self_init:
                    fields.append(self.cfg.self_init[i])
                elif i == L.start_field:
                    fields.append(self.uni.full(L.startstatus))
                else:
                    fields.append(("obj", ("self", i)))
            return adt(L.evaluator, {0: tuple(fields)})
        if root[0] == "strparam":
            return string([("param", root[1], root[2])])
        return TOP

    def common_role_tags(self, roles):
        """partition tags of a key: the tags of its own roles, or - for a key read from a collection - the tags
        shared by all the origins its value may stem from"""
        direct = frozenset(r for r in roles if not (isinstance(r, tuple) and r[0] in ("via", "was")))
        origins = [r[1] for r in roles if isinstance(r, tuple) and r[0] == "via"]
        res = None
        if direct:
            res = self.role_tags(direct)
        for o in origins:
            t = self.role_tags(o)
            res = t if res is None else (res & t)
        return res or set()

    def role_tags(self, roles, depth=0):
        """partition tags of a key: the plain role names and, for neighbour keys, the path
        'nbr:<dir>:<tag of the parent key>' (e.g. nbr:Outgoing:nbr:Incoming:sigtarget)"""
        out = set()
        for r in roles:
            if isinstance(r, tuple) and r[0] == "via":
                out |= self.role_tags(r[1], depth)     # element of a local collection: roles of its origin
                continue
            if isinstance(r, tuple):
                out.add(r[0])
                if r[0] == "nbr" and depth < 4:
                    pinfo = self.sym_info.get(r[1])
                    if pinfo is not None:
                        for pt in self.role_tags(pinfo[0], depth + 1):
                            if pt not in ("via", "was", "nbr"):
                                out.add("nbr:%s:%s" % (r[2], pt))
            else:
                out.add(r)
        return out

    def load_root(self, state, root):
        if root[0] == "local":
            return state.locals.get((root[1], root[2]), TOP)
        hk = root[:2] if root[0] == "job" else root
        v = state.heap.get(hk)
        if v is None or v[0] == "dead":
            if root[0] == "job" and len(root) > 2:
                self.sym_info[root[1]] = (root[2], root[3] if len(root) > 3 else None)
            v = self.default_root(root, state, lazy=True)
            state.heap[hk] = v
        return v

    def lazy_default(self, hk, state):
        """default of a heap root that one side of a join has not materialised yet"""
        if hk[0] == "job":
            info = self.sym_info.get(hk[1], (frozenset(), None))
            return self.default_root(("job", hk[1], info[0], info[1]), state, lazy=True)
        if hk[0] in ("edge", "ghost", "strparam", "shape") or hk == ("self",):
            return self.default_root(hk, state)
        return None

    def store_root(self, state, root, av):
        if root[0] == "local":
            state.locals[(root[1], root[2])] = av
        else:
            hk = root[:2] if root[0] == "job" else root
            state.heap[hk] = av

    def job_root(self, k):
        """heap root for a key AV; None if the identity is unknown"""
        if k[0] == "key" and k[1] is not None:
            return ("job", k[1], k[2], k[3])
        return None

    def havoc_jobs(self, state, to=None):
        """Some job state may have been overwritten with a value in `to` (None: anything)."""
        L = self.layout
        for hk in list(state.heap.keys()):
            if hk[0] == "job":
                cell = state.heap[hk]
                if cell[0] != "adt":
                    continue
                fs = list(adt_variants(cell)[0])
                cur = fs[L.state_field]
                if to is None:
                    fs[L.state_field] = self.js_full
                    if L.histout_field is not None:
                        fs[L.histout_field] = TOP
                    for i in L.bool_fields:
                        fs[i] = BOOL_TOP
                else:
                    fs[L.state_field] = join(strip_links(cur), to) if cur[0] == "fin" else self.js_full
                state.heap[hk] = adt(L.nodeinfo, {0: tuple(fs)})
        if to is None:
            state.written = self.js_full[2]
        else:
            state.written = state.written | to[2]
        self.drop_links(state, "job")

    def drop_links(self, state, rootkind, root=None):
        for lk, v in list(state.locals.items()):
            if v[0] == "fin" and v[3]:
                if rootkind == "local":
                    keep = tuple(l for l in v[3] if l[0][0] != root)
                else:
                    keep = tuple(l for l in v[3] if not (l[0][0][0] == rootkind and (root is None or l[0][0][:2] == root[:2])))
                if len(keep) != len(v[3]):
                    state.locals[lk] = ("fin", v[1], v[2], keep)

    # ---- places ----------------------------------------------------------------------
    def resolve(self, state, frame, place):
        """-> (root, proj) or None"""
        root = ("local", frame.fid, place["l"])
        proj = ()
        for e in place["p"]:
            k = e["k"]
            if k == "deref":
                cur = av_get(self.load_root(state, root), proj, self.uni)
                if cur is None:
                    return None
                if cur[0] == "ref":
                    root, proj = cur[1], cur[2]
                elif cur[0] in ("key", "str", "int", "coll", "iter", "obj", "bytes"):
                    pass  # value-as-reference: &usize / &str / &String are carried as the value
                else:
                    return None
            elif k == "field":
                proj = proj + (("f", e["i"]),)
            elif k == "downcast":
                proj = proj + (("v", e["v"]),)
            elif k == "index":
                L = self.layout
                if (root, proj) == L.self_loc(L.jobs_field):
                    kav = state.locals.get((frame.fid, e["l"]), TOP)
                    jr = self.job_root(kav)
                    if jr is None:
                        return ("anyjob", kav)
                    root, proj = jr, ()
                else:
                    return None
            else:
                return None
        return (root, proj)

    def read_place(self, state, frame, place):
        loc = self.resolve(state, frame, place)
        if loc is None:
            return TOP
        if loc[0] == "anyjob":
            return TOP
        root, proj = loc
        v = av_get(self.load_root(state, root), proj, self.uni)
        if v is None:
            return TOP
        return v

    def typed(self, av, ty):
        """Replace TOP by the full set when the static type is a finite enum / bool."""
        if av is None:
            av = TOP
        if av[0] == "top" and ty is not None:
            a = ty.get("adt")
            if a in self.uni.fin:
                return self.uni.full(a)
            if ty["s"] == "bool":
                return BOOL_TOP
        return av

    def sitekey(self, frame, bi, si, sub=0):
        tok = getattr(self, "cur_token", None)
        fz = getattr(self, "fuse_tag", None)
        if tok is None and fz is None:
            return (self.cfg.label, frame.fid, bi, si, sub)
        return (self.cfg.label, frame.fid, bi, si, (sub, repr(tok), fz))

    def cells(self, state):
        """compact snapshot of the job cells (for fact context)"""
        L = self.layout
        out = []
        for hk, cell in state.heap.items():
            if hk[0] == "job":
                if cell[0] != "adt":
                    continue
                fs = adt_variants(cell)[0]
                st = fs[L.state_field]
                extra = tuple((i, fs[i][2]) for i in L.bool_fields if fs[i][0] == "fin")
                out.append((hk[1], st[2] if st[0] == "fin" else None, extra))
        return tuple(sorted(out, key=repr))

    def write_place(self, state, frame, place, av, bi, si, span):
        L = self.layout
        loc = self.resolve(state, frame, place)
        if loc is None:
            # store through an unknown pointer: it can only reach engine state if the pointee's type can hold any of it
            base_ty = frame.body.locals[place["l"]]["s"] if place.get("l") is not None else ""
            tails = [x.split("<")[0].split("::")[-1] for x in (L.evaluator, L.jobstate, L.nodeinfo if hasattr(L, "nodeinfo") else "NodeInfo",
                                                               L.edgeinfo, L.signal_ty, "GraphMap", "JobState", "NodeInfo")]
            harmless = base_ty and base_ty.startswith("&") and not any(t_ and t_ in base_ty for t_ in tails) and "dyn " not in base_ty \
                and not any(ch_ in base_ty for ch_ in ("T>", "impl "))
            if harmless:
                # a per-job mark in a local table (`seen[job] = true`): the store form of inserting the job into a local set
                for e in place["p"]:
                    if e["k"] == "index":
                        kav = state.locals.get((frame.fid, e["l"]), TOP)
                        if kav[0] == "key" and kav[1] is not None:
                            self.rec.put("mark", self.sitekey(frame, bi, si),
                                         dict(fn=frame.body.name, bb=bi, span=span, key=(kav[1], kav[2]), value=av, stack=frame.stack,
                                              fid=frame.fid))
                return
            self.rec.note("imprecise", "store through unknown pointer in %s bb%d" % (frame.body.name, bi))
            self.havoc_jobs(state)
            return
        if loc[0] == "anyjob":
            # store to jobs[<unknown index>]
            proj_fields = [e for e in place["p"] if e["k"] == "field"]
            self.record_job_store(state, frame, None, place, av, bi, si, span, TOP)
            return
        root, proj = loc
        if root[0] == "job":
            self.record_job_store(state, frame, root, place, av, bi, si, span, None, proj)
        elif root[0] == "edge":
            self.rec.put("write_edge", self.sitekey(frame, bi, si),
                         dict(fn=frame.body.name, bb=bi, span=span, a=root[1], b=root[2], proj=proj, value=av,
                              cells=self.cells(state), ghosts=self.models_mod.ghosts(self, state), stack=frame.stack))
            for hk in list(state.heap.keys()):
                if hk[0] == "edge" and hk != root:
                    cur = state.heap[hk]
                    state.heap[hk] = av_set(cur, proj, av, self.uni, weak=True) if proj else join(cur, av)
        elif root[0] == "marktable":
            info = self.sym_info.get(root[2], (frozenset(), None))
            self.rec.put("mark", self.sitekey(frame, bi, si),
                         dict(fn=frame.body.name, bb=bi, span=span, key=(root[2], info[0]), value=av, stack=frame.stack, fid=frame.fid))
        elif root == ("self",):
            self.rec.put("store_self", self.sitekey(frame, bi, si),
                         dict(fn=frame.body.name, bb=bi, span=span, proj=proj, value=av,
                              old=av_get(self.load_root(state, root), proj, self.uni), stack=frame.stack))
        if root[0] == "local" and root[2] == 0 and not proj and root[1] == frame.fid and state.token is None and frame.stack:
            sig = None
            if av[0] == "adt" and len(av[2]) == 1 and av[1] in ("std::option::Option", "std::result::Result"):
                sig = ("v", av[2][0][0])
            elif av[0] == "fin" and av[1] == BOOL and len(av[2]) == 1:
                sig = ("b", list(av[2])[0][0])
            if sig is not None:
                state.token = ("ret", frame.fid, sig)
        old = self.load_root(state, root)
        if root[0] == "box":
            new = av      # MaybeUninit / ManuallyDrop wrappers around the boxed value are transparent
        else:
            new = av_set(old, proj, av, self.uni) if proj else av
        self.store_root(state, root, new)
        if root[0] != "local":
            self.drop_links(state, root[0], root)
        else:
            self.drop_links(state, "local", root)

    def record_job_store(self, state, frame, root, place, av, bi, si, span, unknown_key=None, proj=()):
        L = self.layout
        fld = proj[0][1] if proj and proj[0][0] == "f" else None
        if root is None:
            # unknown job: find the field from the place itself
            fs = [e for e in place["p"] if e["k"] == "field"]
            fld = fs[-1]["i"] if fs else None
        if fld == L.state_field and (len(proj) <= 1):
            if root is not None:
                cell = self.load_root(state, root)
                frm = av_get(cell, (("f", L.state_field),), self.uni)
            else:
                frm = self.js_full
            to = self.typed(av, {"adt": L.jobstate, "s": ""})
            self.rec.put("write_state", self.sitekey(frame, bi, si),
                         dict(fn=frame.body.name, bb=bi, span=span, key=(root[1], root[2]) if root else (None, frozenset()),
                              frm=frm[2] if frm[0] == "fin" else self.js_full[2], to=to[2],
                              cells=self.cells(state), stack=frame.stack, macro=span.get("exp", False)))
            # weak update of every other cell
            me = root[:2] if root else None
            for hk in list(state.heap.keys()):
                if hk[0] == "job" and hk != me:
                    cell = state.heap[hk]
                    if cell[0] != "adt":
                        continue
                    fs = list(adt_variants(cell)[0])
                    cur = fs[L.state_field]
                    fs[L.state_field] = join(strip_links(cur), to) if cur[0] == "fin" else self.js_full
                    state.heap[hk] = adt(L.nodeinfo, {0: tuple(fs)})
            state.written = state.written | to[2]
            self.drop_links(state, "job")
        else:
            self.rec.put("write_jobfield", self.sitekey(frame, bi, si),
                         dict(fn=frame.body.name, bb=bi, span=span, key=(root[1], root[2]) if root else (None, frozenset()),
                              field=fld, proj=proj, value=av, cells=self.cells(state), stack=frame.stack))
            if root is None and fld is not None:
                # a store to one field of an unknown job: that field of every known job may have changed
                for hk in list(state.heap.keys()):
                    if hk[0] == "job":
                        cell = state.heap[hk]
                        if cell[0] != "adt":
                            continue
                        fs = list(adt_variants(cell)[0])
                        if fld < len(fs):
                            fs[fld] = join(strip_links(fs[fld]), av) if len(proj) <= 1 else TOP
                            state.heap[hk] = adt(L.nodeinfo, {0: tuple(fs)})
                self.drop_links(state, "job")
            elif root is None:
                self.havoc_jobs(state)

    # ---- operands / rvalues ---------------------------------------------------------------
    def const_av(self, state, frame, c):
        ty = c["ty"]
        s = ty["s"]
        if "fn" in c:
            return ("fnref", c.get("resolved") or c["fn"])
        if "promoted" in c:
            return self.eval_promoted(state, c["promoted_of"], c["promoted"])
        if "bytes" in c:
            bs = bytes(c["bytes"])
            if s.startswith("&[u8"):
                return ("bytes", bs)
            try:
                return string([("const", bs.decode("utf8"))])
            except Exception:
                return ("bytes", bs)
        if s == "&str" and len(c["const"]) >= 2 and c["const"][0] == '"' and c["const"][-1] == '"' and "\\" not in c["const"]:
            # a literal in a pattern is a type-level constant; the driver has no bytes for it, its printed form is exact
            return string([("const", c["const"][1:-1])])
        if s.startswith("&[u8;") and c["const"].startswith('b"'):
            try:
                import ast
                return ("bytes", ast.literal_eval(c["const"]))
            except Exception:
                return TOP
        if "int" in c:
            try:
                v = int(c["int"], 16)
            except Exception:
                v = None
            if s == "bool":
                return boolean([bool(v)])
            return ("int", v)
        a = ty.get("adt")
        if a in self.uni.fin:
            name = c["const"].split("::")[-1]
            if name in self.uni.variants[a]:
                return fin(a, [(self.uni.variants[a].index(name),)])
            return self.uni.full(a)
        return TOP

    def eval_promoted(self, state, owner, idx):
        k = (owner, idx)
        if k not in self.promoted_cache:
            body = self.facts.promoted(owner, idx)
            if body is None:
                self.promoted_cache[k] = TOP
            else:
                fr = self.new_frame(body, (("promoted", 0),))
                st = State()
                out = self.run(fr, st)
                r = TOP
                if out is not None:
                    r0 = out.locals.get((fr.fid, 0), TOP)
                    if r0[0] == "ref" and r0[1][0] == "local":
                        val = av_get(out.locals.get((r0[1][1], r0[1][2]), TOP), r0[2], self.uni)
                        r = ("promoted", k, val)
                    else:
                        r = r0
                self.promoted_cache[k] = r
        r = self.promoted_cache[k]
        if r[0] == "promoted":
            root = ("promoted", r[1])
            state.heap[root] = r[2]
            return ref(root, ())
        return r

    def eval_operand(self, state, frame, op):
        if "copy" in op:
            return self.read_place(state, frame, op["copy"])
        if "move" in op:
            return self.read_place(state, frame, op["move"])
        if "const" in op:
            return self.const_av(state, frame, op)
        return TOP

    def operand_ty(self, frame, op):
        p = op.get("copy") or op.get("move")
        if p is not None:
            if not p["p"]:
                return frame.body.locals[p["l"]]
            last = p["p"][-1]
            if last["k"] == "field":
                return last["ty"]
            return None
        if "const" in op:
            return op["ty"]
        return None

    def eval_rvalue(self, state, frame, r, dest_ty):
        k = r["k"]
        if k == "use":
            v = self.eval_operand(state, frame, r["o"])
            p = r["o"].get("copy")
            if p is not None and not p["p"] and v[0] == "fin" and v[1] == BOOL and len(v[2]) > 1:
                # a copied flag: branching on the copy also decides the original
                src = (("local", frame.fid, p["l"]), ())
                v = ("fin", BOOL, v[2], v[3] + ((src, "fin", frozenset([(1,)]), frozenset([(0,)])),))
            return v
        if k == "ref" or k == "rawptr":
            pp = r["p"]["p"]
            if len(pp) == 1 and pp[0]["k"] == "deref":
                cur = state.locals.get((frame.fid, r["p"]["l"]))
                if cur is not None and cur[0] in ("str", "key", "bytes"):
                    return cur      # re-borrow of a value carried as its own reference
            loc = self.resolve(state, frame, r["p"])
            if loc is None or loc[0] == "anyjob":
                return TOP
            # a shared borrow of a string is carried as the string itself (nothing can change it while the borrow lives); this keeps
            # `Some(&recorded)` and `Some(&current)` joinable
            if k == "ref" and r.get("mut") is False and loc[0][0] != "local":
                cur = av_get(self.load_root(state, loc[0]), loc[1], self.uni)
                if cur is not None and cur[0] == "str":
                    return cur
            return ref(loc[0], loc[1])
        if k == "cast":
            v = self.eval_operand(state, frame, r["o"])
            if "Transmute" in r["ck"]:
                if v[0] == "ref" and r["ty"]["s"][:1] in ("*", "&"):
                    return v
                return TOP
            if v[0] == "fin" and r["ty"]["s"] in ("isize", "usize", "u8", "u32", "i32", "u64", "i64"):
                if len(v[2]) == 1:
                    return ("int", list(v[2])[0][0])
                return ("int", None)
            return v
        if k == "binop":
            a = self.eval_operand(state, frame, r["a"])
            b = self.eval_operand(state, frame, r["b"])
            op = r["op"]
            if op in ("Eq", "Ne", "Lt", "Le", "Gt", "Ge"):
                if a[0] == "int" and b[0] == "int" and a[1] is not None and b[1] is not None:
                    res = {"Eq": a[1] == b[1], "Ne": a[1] != b[1], "Lt": a[1] < b[1], "Le": a[1] <= b[1],
                           "Gt": a[1] > b[1], "Ge": a[1] >= b[1]}[op]
                    return boolean([res])
                if a[0] == "fin" and b[0] == "fin" and a[1] == b[1] and op in ("Eq", "Ne"):
                    if len(a[2]) == 1 and len(b[2]) == 1:
                        return boolean([(a[2] == b[2]) == (op == "Eq")])
                return BOOL_TOP
            if op in ("BitOr", "BitAnd", "BitXor") and a[0] == "fin" and b[0] == "fin" and a[1] == BOOL and b[1] == BOOL:
                # `flag |= x` / `flag &= x` on bools, pointwise over the possible values
                f_ = {"BitOr": lambda x, y: x or y, "BitAnd": lambda x, y: x and y, "BitXor": lambda x, y: x != y}[op]
                vals = set(bool(f_(bool(x[0]), bool(y[0]))) for x in a[2] for y in b[2])
                return boolean(sorted(vals))
            known = a[0] == "int" and b[0] == "int" and a[1] is not None and b[1] is not None
            if "WithOverflow" in op:
                if known and op.startswith("Add") and a[1] + b[1] < 2 ** 31:
                    return adt("tuple", {0: (("int", a[1] + b[1]), FALSE)})
                return adt("tuple", {0: (("int", None), BOOL_TOP)})
            if known and op in ("Add", "AddUnchecked") and a[1] + b[1] < 2 ** 31:
                return ("int", a[1] + b[1])
            return ("int", None)
        if k == "unop":
            v = self.eval_operand(state, frame, r["o"])
            if r["op"] == "Not" and v[0] == "fin" and v[1] == BOOL:
                links = tuple((l[0], l[1], l[3], l[2]) for l in v[3])
                return ("fin", BOOL, frozenset((1 - c[0],) for c in v[2]), links)
            if r["op"] == "Not" and v[0] == "cmp":
                return BOOL_TOP
            if r["op"] == "PtrMetadata":
                return ("int", None)
            return self.typed(TOP, dest_ty)
        if k == "discr":
            loc = self.resolve(state, frame, r["p"])
            if loc is None or loc[0] == "anyjob":
                return ("discr", None, None, self.typed(TOP, None))
            v = av_get(self.load_root(state, loc[0]), loc[1], self.uni)
            return ("discr", loc[0], loc[1], v)
        if k == "agg":
            kd = r["kind"]
            fs = [self.eval_operand(state, frame, f) for f in r["fields"]]
            if "adt" in kd:
                a = kd["adt"]
                self.models_mod.VNAMES[(a, kd["variant"])] = kd["vname"]
                if a in self.uni.fin:
                    sets = []
                    ftys = self.uni.field_tys[a][kd["variant"]]
                    combos = [()]
                    for fty, f in zip(ftys, fs):
                        f = self.typed(f, {"adt": fty, "s": fty})
                        if f[0] != "fin":
                            return self.uni.full(a)
                        combos = [c + (x,) for c in combos for x in f[2]]
                    return fin(a, [(kd["variant"],) + c for c in combos])
                return adt(a, {kd["variant"]: tuple(fs)})
            if "tuple" in kd:
                return adt("tuple", {0: tuple(fs)})
            if "array" in kd:
                return adt("array", {0: tuple(fs)})
            if "closure" in kd:
                return adt("closure:" + kd["closure"], {0: tuple(fs)})
            return TOP
        return TOP

    # ---- running a body --------------------------------------------------------------------
    def rpo(self, body):
        seen = set()
        order = []

        def dfs(b):
            stack = [(b, iter(body.succs(b)))]
            seen.add(b)
            while stack:
                n, it = stack[-1]
                adv = False
                for s in it:
                    if s not in seen:
                        seen.add(s)
                        stack.append((s, iter(body.succs(s))))
                        adv = True
                        break
                if not adv:
                    order.append(n)
                    stack.pop()
        dfs(0)
        order.reverse()
        return {b: i for i, b in enumerate(order)}

    def run(self, frame, entry, start=0, stops=(), collect=None):
        body = frame.body
        if not hasattr(body, "_rpo_cache"):
            pass
        rpo = getattr(self, "_rpo", None)
        if rpo is None:
            self._rpo = rpo = {}
        if body.name not in rpo:
            rpo[body.name] = self.rpo(body)
        order = rpo[body.name]
        ins = {(start, entry.token): entry}
        work = {(start, entry.token)}
        exits = []
        stops = set(stops)
        stop_states = {}
        iters = 0
        es = self.edges.setdefault(frame.fid, set())
        if not hasattr(self, "edges_tok"):
            self.edges_tok = {}
        est = self.edges_tok.setdefault(frame.fid, set())
        while work:
            key = min(work, key=lambda x: (order.get(x[0], 1 << 30), repr(x[1])))
            work.discard(key)
            b = key[0]
            iters += 1
            if iters > 200000:
                raise Imprecision("no fixpoint in %s" % body.name)
            st = ins[key].copy()
            self.cur_token = key[1]
            outs = self.exec_block(st, frame, b)
            for succ, s2 in outs:
                if isinstance(succ, tuple):
                    # (via, target): an edge out of a block that was executed fused with its predecessor
                    es.add((b, succ[0]))
                    es.add((succ[0], succ[1]))
                    est.add((b, succ[0], key[1]))
                    est.add((succ[0], succ[1], s2.token))
                    succ = succ[1]
                else:
                    es.add((b, succ))
                    est.add((b, succ, key[1]))
                if succ == "return":
                    exits.append(s2)
                    continue
                if succ in stops:
                    stop_states[succ] = join_state(stop_states.get(succ), s2)
                    continue
                k2 = (succ, s2.token)
                old = ins.get(k2)
                if old is None:
                    ins[k2] = s2
                    work.add(k2)
                else:
                    new = join_state(old, s2)
                    if not (new == old):
                        ins[k2] = new
                        work.add(k2)
        self.cur_token = None
        # exit partitions: one per token
        parts = {}
        for s2 in exits:
            parts[s2.token] = join_state(parts.get(s2.token), s2)
        self.last_exits = list(parts.values())
        exit_state = None
        for s2 in parts.values():
            j = s2.copy()
            j.token = None
            exit_state = join_state(exit_state, j)
        if collect is not None:
            byb = {}
            for (b, tok), stt in ins.items():
                j = stt
                if b in byb:
                    a_ = byb[b].copy(); a_.token = None
                    b_ = stt.copy(); b_.token = None
                    j = join_state(a_, b_)
                byb[b] = j
            collect["ins"] = byb
            collect["stops"] = stop_states
        return exit_state

    def exec_block(self, state, frame, bi):
        body = frame.body
        blk = body.blocks[bi]
        if blk["cleanup"]:
            return []
        for si, st in enumerate(blk["stmts"]):
            if st["k"] == "assign":
                p = st["p"]
                dest_ty = body.locals[p["l"]] if not p["p"] else (p["p"][-1].get("ty") if p["p"][-1]["k"] == "field" else None)
                av = self.eval_rvalue(state, frame, st["r"], dest_ty)
                av = self.typed(av, dest_ty)
                r = st["r"]
                if r["k"] == "agg" and r["kind"].get("adt") == self.layout.error_ty:
                    self.rec.put("error_construct", self.sitekey(frame, bi, si, 1),
                                 dict(fn=body.name, bb=bi, span=st["span"], variant=r["kind"]["vname"], stack=frame.stack,
                                      cells=self.cells(state), ghosts=self.models_mod.ghosts(self, state)))
                self.write_place(state, frame, p, av, bi, si, st["span"])
            elif st["k"] == "setdiscr":
                self.rec.note("imprecise", "SetDiscriminant in %s" % body.name)
                self.write_place(state, frame, st["p"], TOP, bi, si, {"s": "", "exp": False})
        t = blk["term"]["t"]
        span = blk["term"]["span"]
        k = t["k"]
        if k == "goto":
            return [(t["t"], state)]
        if k == "drop":
            return [(t["t"], state)]
        if k == "return":
            return [("return", state)]
        if k == "unreachable" or k == "resume":
            return []
        if k == "assert":
            c = self.eval_operand(state, frame, t["cond"])
            self.rec.put("assert", self.sitekey(frame, bi, -1),
                         dict(fn=body.name, bb=bi, span=span, msg=t["msg"], cond=c, stack=frame.stack))
            return [(t["t"], state)]
        if k == "switch":
            return self.exec_switch(state, frame, bi, t)
        if k == "call":
            return self.exec_call(state, frame, bi, t, span)
        if k == "other":
            return [(s, state) for s in body.succs(bi)]
        return []

    def exec_switch(self, state, frame, bi, t):
        d = self.eval_operand(state, frame, t["d"])
        arms = t["arms"]
        out = []
        if d[0] == "discr":
            root, proj, snap = d[1], d[2], d[3]
            dv = discr_values(snap, self.uni) if snap is not None else None
            listed = set()
            for (v, tgt) in arms:
                v = int(v)
                listed.add(v)
                if dv is not None and v not in dv:
                    continue
                s2 = state.copy()
                if root is not None and self.refine(s2, root, proj, {v}) is False:
                    continue
                out.append((tgt, s2))
            rest = None if dv is None else (dv - listed)
            if rest is None or rest:
                s2 = state.copy()
                ok = True
                if root is not None and rest is not None:
                    ok = self.refine(s2, root, proj, rest) is not False
                if ok:
                    out.append((t["otherwise"], s2))
            return self.merge_targets(out)
        if d[0] == "fin" and d[1] == BOOL:
            vals = set(c[0] for c in d[2])
            listed = set()
            for (v, tgt) in arms:
                v = int(v)
                listed.add(v)
                if v not in vals:
                    continue
                s2 = state.copy()
                if self.apply_links(s2, d[3], v) is False:
                    continue
                self.refine_operand_bool(s2, frame, t["d"], v)
                out.append((tgt, s2))
            rest = vals - listed
            if rest:
                s2 = state.copy()
                ok = True
                for v in rest:
                    if self.apply_links(s2, d[3], v) is False:
                        ok = False
                    self.refine_operand_bool(s2, frame, t["d"], v)
                if ok:
                    out.append((t["otherwise"], s2))
            return self.merge_targets(out)
        if d[0] == "int" and d[1] is not None:
            for (v, tgt) in arms:
                if int(v) == d[1]:
                    return [(tgt, state)]
            return [(t["otherwise"], state)]
        if d[0] == "fin":
            # switch on a fieldless enum cast to int is handled through 'int'; be conservative
            pass
        tg = []
        for (v, tgt) in arms:
            tg.append((tgt, state.copy()))
        tg.append((t["otherwise"], state.copy()))
        return self.merge_targets(tg)

    def merge_targets(self, outs):
        m = {}
        order = []
        for tgt, s in outs:
            k = (tgt, s.token)
            if k in m:
                m[k] = join_state(m[k], s)
            else:
                m[k] = s
                order.append(k)
        return [(k[0], m[k]) for k in order]

    def refine_operand_bool(self, state, frame, op, v):
        p = op.get("copy") or op.get("move")
        if p is not None and not p["p"]:
            cur = state.locals.get((frame.fid, p["l"]))
            if cur is not None and cur[0] == "fin" and cur[1] == BOOL:
                state.locals[(frame.fid, p["l"])] = ("fin", BOOL, frozenset([(v,)]), cur[3])

    def refine(self, state, root, proj, variants):
        cur = self.load_root(state, root)
        new = av_restrict(cur, proj, variants, self.uni)
        if new is None:
            return False
        if new is not cur:
            self.store_root(state, root, new)
        return True

    def apply_links(self, state, links, v):
        """links: ((root, proj), kind, when_true, when_false): restrict the location."""
        for l in links:
            (root, proj) = l[0]
            allowed = l[2] if v else l[3]
            if allowed is None:
                continue
            cur = self.load_root(state, root)
            sub = av_get(cur, proj, self.uni)
            if sub is None:
                return False
            if l[1] == "fin":
                if sub[0] != "fin":
                    continue
                keep = sub[2] & allowed
                if not keep:
                    return False
                if keep != sub[2]:
                    # rebuild: restrict the containing value
                    new = self.restrict_fin_at(cur, proj, keep)
                    if new is None:
                        return False
                    self.store_root(state, root, new)
            elif l[1] == "variant":
                new = av_restrict(cur, proj, allowed, self.uni)
                if new is None:
                    return False
                self.store_root(state, root, new)
            elif l[1] == "shapefact":
                facts = cur[1] if (cur is not None and cur[0] == "shapefacts") else frozenset()
                neg = (allowed[0], not allowed[1])
                if neg in facts:
                    return False
                self.store_root(state, root, ("shapefacts", facts | {allowed}))
            elif l[1] == "shape":
                if sub[0] == "str":
                    neg = (allowed[0], not allowed[1])
                    if neg in sub[2]:
                        return False
                    new = ("str", sub[1], sub[2] | {allowed})
                    self.store_root(state, root, av_set(cur, proj, new, self.uni) if proj else new)
        return True

    def restrict_fin_at(self, av, proj, keep):
        """av is tree-shaped; at proj there is a fin (possibly reached *inside* a fin)."""
        if av[0] == "fin":
            from domain import fin_follow
            ks = set()
            for c in av[2]:
                r = fin_follow(c, proj)
                if r is not None and r in keep:
                    ks.add(c)
            if not ks:
                return None
            return ("fin", av[1], frozenset(ks), ())
        if not proj:
            return None
        if av[0] == "adt":
            vs = dict(av[2])
            e = proj[0]
            if e[0] == "f":
                nvs = {}
                for v, fs in vs.items():
                    if e[1] >= len(fs):
                        continue
                    r = self.restrict_fin_at(fs[e[1]], proj[1:], keep)
                    if r is None:
                        continue
                    fs = list(fs)
                    fs[e[1]] = r
                    nvs[v] = tuple(fs)
                if not nvs:
                    return None
                return adt(av[1], nvs)
            if e[0] == "v":
                if e[1] not in vs:
                    return None
                sub = ("adt", av[1], ((e[1], vs[e[1]]),))
                return self.restrict_fin_at(sub, proj[1:], keep)
        return av

    # ---- calls -------------------------------------------------------------------------------
    def exec_call(self, state, frame, bi, t, span):
        body = frame.body
        args = [self.eval_operand(state, frame, a) for a in t["args"]]
        args = [BOOL_TOP if a[0] == "cmp" else a for a in args]
        c = M.callee_of(t)
        dest = t["dest"]
        dest_ty = body.locals[dest["l"]] if not dest["p"] else None
        tgt = t["t"]
        results = None     # list of (ret av, state)
        name = None
        if tgt < 0:
            nm = (c[1] or c[0]) if c is not None else "<indirect>"
            msg = None
            for a in args:
                if a[0] == "str":
                    msg = sorted(p[1] for p in a[1] if p[0] == "const")
            self.rec.put("panic", self.sitekey(frame, bi, -3),
                         dict(fn=body.name, bb=bi, span=span, kind="diverging_call", detail=(nm, msg), possible=True,
                              stack=frame.stack, cells=self.cells(state), ghosts=self.models_mod.ghosts(self, state)))
            return []
        if c is not None:
            gen, resolved, is_local, gen_args = c
            name = resolved or gen
            self.rec.put("call", self.sitekey(frame, bi, -1),
                         dict(fn=body.name, bb=bi, span=span, callee=name, generic=gen, stack=frame.stack))
            short = name
            if any(name.endswith("::" + o) or name == o for o in self.cfg.opaque):
                results = self.opaque_call(state, frame, bi, t, args, name, span, "opaque")
            elif gen in self.models or name in self.models:
                fn = self.models.get(name) or self.models.get(gen)
                results = fn(self, state, frame, bi, t, args, span)
            elif gen.startswith("PPGEvaluatorStrategy::"):
                results = self.models_mod.strategy_call(self, state, frame, bi, t, args, span, gen)
            else:
                cb = self.facts.body(name)
                if cb is None and is_local and args:
                    # dynamic / unresolved trait dispatch on a value whose concrete local type is known abstractly
                    recv = self.models_mod.deref(self, state, args[0])
                    rty = recv[1] if recv[0] in ("fin", "adt") else None
                    if rty is not None and "::" in gen:
                        cand = "<%s as %s>::%s" % (rty, gen.rsplit("::", 1)[0], gen.rsplit("::", 1)[1])
                        cb = self.facts.body(cand)
                        if cb is not None:
                            name = cand
                if cb is not None and cb.kind != "Promoted":
                    if any(n == name for (n, _) in frame.stack) or name == body.name or frame.depth >= self.cfg.inline_depth:
                        results = self.opaque_call(state, frame, bi, t, args, name, span, "recursive")
                    else:
                        results = self.inline_call(state, frame, bi, cb, args, span)
                else:
                    results = self.models_mod.default_external(self, state, frame, bi, t, args, span, name)
        else:
            results = self.models_mod.indirect_call(self, state, frame, bi, t, args, span)
        outs = []
        fuse = False
        if len(results) > 1 and tgt != bi and not dest["p"]:
            preds = body.preds().get(tgt, [])
            sigs = set()
            for (rv, _st) in results:
                if rv[0] == "adt" and len(rv[2]) == 1:
                    sigs.add(("v", rv[2][0][0]))
                elif rv[0] == "fin" and rv[1] == BOOL and len(rv[2]) == 1:
                    sigs.add(("b", list(rv[2])[0][0]))
                else:
                    sigs.add(None)
            fuse = len(preds) == 1 and None not in sigs and len(sigs) > 1 and body.term(tgt)["k"] == "switch"
        if fuse:
            # path-sensitive step: run the (single-predecessor) switch block once per result instead of joining first
            saved = getattr(self, "fuse_tag", None)
            for ri, (rv, st2) in enumerate(results):
                rv = self.typed(rv, dest_ty)
                self.write_place(st2, frame, dest, rv, bi, -1, span)
                self.fuse_tag = (bi, ri)
                for (succ, s3) in self.exec_block(st2, frame, tgt):
                    outs.append(((tgt, succ), s3))
            self.fuse_tag = saved
            m = {}
            order_ = []
            for (k_, s3) in outs:
                kk = (k_, s3.token)
                if kk in m:
                    m[kk] = join_state(m[kk], s3)
                else:
                    m[kk] = s3
                    order_.append(kk)
            return [(kk[0], m[kk]) for kk in order_]
        for (rv, st2) in results:
            rv = self.typed(rv, dest_ty)
            self.write_place(st2, frame, dest, rv, bi, -1, span)
            outs.append((tgt, st2))
        return self.merge_targets(outs)

    def inline_call(self, state, frame, bi, cb, args, span, closure_env=None):
        stack = frame.stack + ((frame.body.name, bi),)
        fr = self.new_frame(cb, stack)
        st = state.copy()
        caller_token = st.token
        caller_cur = getattr(self, "cur_token", None)
        st.token = None
        for i, a in enumerate(args):
            st.locals[(fr.fid, i + 1)] = self.typed(a, cb.locals[i + 1] if i + 1 < len(cb.locals) else None)
        joined = self.run(fr, st)
        self.cur_token = caller_cur
        if joined is None:
            return []
        parts = list(self.last_exits)
        if len(parts) > 1 and cb.kind != "Promoted":
            res = []
            for p_ in parts:
                p2 = p_.copy()
                p2.token = caller_token
                res.extend(self.finish_inline(p2, fr, cb, frame, bi, args))
            return res
        out = joined
        out.token = caller_token
        return self.finish_inline(out, fr, cb, frame, bi, args)

    def finish_inline(self, out, fr, cb, frame, bi, args):
        rv = out.locals.get((fr.fid, 0), TOP)
        if cb.locals[0]["s"] == "bool" and cb.kind != "Closure":
            rv = self.typed(rv, cb.locals[0])
            syms = tuple(sorted(set(str(a[1]) for a in args if a[0] == "key" and a[1] is not None)))
            g = ("ghost", "ret:" + cb.name, (frame.fid, bi), syms)
            out.heap[g] = strip_links(rv)
            rv = ("fin", BOOL, rv[2], rv[3] + (((g, ()), "fin", frozenset([(1,)]), frozenset([(0,)])),))
        # drop the callee's locals (and those of deeper frames)
        for lk in [lk for lk in out.locals if lk[0] == fr.fid or self.is_deeper(lk[0], fr)]:
            del out.locals[lk]
        return [(rv, out)]

    def is_deeper(self, fid, fr):
        nm = self.frame_names.get(fid)
        if nm is None:
            return False
        st = nm[1]
        return len(st) > len(fr.stack) and st[:len(fr.stack)] == fr.stack

    def may_write_states(self, name, seen=None):
        """syntactic mod-summary: can `name` (transitively) write a job state / any NodeInfo field?"""
        if name in self.mod_cache:
            return self.mod_cache[name]
        seen = seen or set()
        if name in seen:
            return False
        seen.add(name)
        b = self.facts.body(name)
        if b is None:
            return False
        L = self.layout
        res = False
        for blk in b.blocks:
            if blk["cleanup"]:
                continue
            for st in blk["stmts"]:
                if st["k"] == "assign":
                    pr = st["p"]["p"]
                    if pr and pr[-1]["k"] == "field" and pr[-1]["ty"].get("adt") == L.jobstate:
                        res = True
                    # any store whose base is a NodeInfo
                    for e in pr:
                        if e["k"] == "field" and e["ty"].get("adt") == L.jobstate:
                            res = True
            t = blk["term"]["t"]
            if t["k"] == "call":
                c = M.callee_of(t)
                if c is not None:
                    nm = c[1] or c[0]
                    if self.facts.body(nm) is not None and self.may_write_states(nm, seen):
                        res = True
        self.mod_cache[name] = res
        return res

    def opaque_call(self, state, frame, bi, t, args, name, span, why):
        st = state.copy()
        if self.may_write_states(name) or why == "opaque":
            if self.may_write_states(name):
                self.havoc_jobs(st)
        # values reachable through &mut arguments that are locals: collections may grow
        for a, op in zip(args, t["args"]):
            ty = self.operand_ty(frame, op)
            if ty is not None and ty.get("mut") and a[0] == "ref" and a[1][0] == "local":
                cur = self.load_root(st, a[1])
                if cur[0] != "coll":
                    self.store_root(st, a[1], av_set(cur, a[2], TOP, self.uni) if a[2] else TOP)
        self.rec.put("opaque_call", self.sitekey(frame, bi, -2),
                     dict(fn=frame.body.name, bb=bi, span=span, callee=name, why=why, stack=frame.stack,
                          cells=self.cells(state)))
        rv = TOP
        cb = self.facts.body(name)
        if cb is not None:
            rty = cb.locals[0]["s"]
            if rty.startswith("std::result::Result<") and rty.endswith(", %s>" % self.layout.error_ty):
                ev = self.error_variants(name)
                ea = self.facts.adts[self.layout.error_ty]
                vs = {}
                for vi, v in enumerate(ea["variants"]):
                    if v["name"] in ev:
                        vs[vi] = tuple(TOP for _ in v["fields"])
                res = {0: (TOP,)}
                if vs:
                    res[1] = (adt(self.layout.error_ty, vs),)
                rv = adt("std::result::Result", res)
            else:
                rv = self.typed(TOP, cb.locals[0])
        return [(rv, st)]

    def error_variants(self, name, seen=None):
        """names of the error variants constructed in `name` or (transitively) its local callees"""
        if name in self.errvar_cache:
            return self.errvar_cache[name]
        top = seen is None
        seen = seen if seen is not None else set()
        if name in seen:
            return set()
        seen.add(name)
        out = set()
        b = self.facts.body(name)
        if b is None:
            return out
        for blk in b.blocks:
            if blk["cleanup"]:
                continue
            for st in blk["stmts"]:
                if st["k"] == "assign" and st["r"]["k"] == "agg" and st["r"]["kind"].get("adt") == self.layout.error_ty:
                    out.add(st["r"]["kind"]["vname"])
                if st["k"] == "assign" and st["r"]["k"] == "agg" and "closure" in st["r"]["kind"]:
                    out |= self.error_variants(st["r"]["kind"]["closure"], seen)
            t = blk["term"]["t"]
            if t["k"] == "call":
                c = M.callee_of(t)
                if c is not None:
                    nm = c[1] or c[0]
                    if self.facts.body(nm) is not None:
                        out |= self.error_variants(nm, seen)
        if top:
            self.errvar_cache[name] = out
        return out

    # ---- entry points -----------------------------------------------------------------------
    def param_av(self, body, i, state):
        """Abstract value of parameter local `i` when `body` is analysed stand-alone."""
        L = self.layout
        ty = body.locals[i]
        s = ty["s"]
        if "ref" in ty:
            inner = ty["ref"]
            a = inner.get("adt")
            if a == L.evaluator:
                return ref(("self",), ())
            ins = inner["s"]
            if ins in ("[%s]" % L.nodeinfo, "std::vec::Vec<%s>" % L.nodeinfo):
                return ref(*L.self_loc(L.jobs_field))
            if ins.startswith("petgraph::graphmap::GraphMap<"):
                return ref(*L.self_loc(L.dag_field))
            if ins == "std::collections::HashMap<std::string::String, std::string::String>":
                return ref(*L.self_loc(L.history_field))
            if ins == "std::collections::HashSet<std::string::String>":
                return ("obj", ("param", body.name, i))
            if ins == "str" or ins == "std::string::String":
                return string([("param", body.name, i)])
            if "PPGEvaluatorStrategy" in ins or ins == "T":
                return ref(*L.self_loc(L.strategy_field))
            if a == L.nodeinfo:
                sym = ("param", body.name, i)
                return ref(("job", sym, frozenset([("param", i)]), None), ())
            if a in self.facts.adts and not self.facts.adts[a]["enum"] and state is not None:
                # a private bundle of references to evaluator parts (e.g. a context struct): build it field by field
                fields = []
                for fi, f in enumerate(self.facts.adts[a]["variants"][0]["fields"]):
                    fields.append(self.av_for_type(f["ty"], body, (i, fi)))
                root = ("paramstruct", body.name, i)
                state.heap[root] = adt(a, {0: tuple(fields)})
                return ref(root, ())
            return TOP
        if s == "usize":
            sym = ("param", body.name, i)
            self.sym_info[sym] = (frozenset([("param", i)]), None)
            return key(sym, [("param", i)])
        if "tuple" in ty:
            fields = []
            for j, et in enumerate(ty["tuple"]):
                if et["s"] == "usize":
                    sym = ("param", body.name, i, j)
                    self.sym_info[sym] = (frozenset([("param", i)]), None)
                    fields.append(key(sym, [("param", i)]))
                elif "ref" in et and et["ref"].get("adt") == L.nodeinfo:
                    sym = ("param", body.name, i, j)
                    self.sym_info[sym] = (frozenset([("param", i)]), None)
                    fields.append(ref(("job", sym, frozenset([("param", i)]), None), ()))
                else:
                    fields.append(self.av_for_type(et, body, (i, j)))
            return adt("tuple", {0: tuple(fields)})
        if s == "std::string::String":
            return string([("param", body.name, i)])
        return self.typed(TOP, ty)

    def av_for_type(self, ty, body, tag):
        """abstract value of a parameter-like slot of the given static type when nothing else is known"""
        L = self.layout
        if "ref" in ty:
            inner = ty["ref"]
            ins = inner["s"]
            if inner.get("adt") == L.evaluator:
                return ref(("self",), ())
            if ins in ("[%s]" % L.nodeinfo, "std::vec::Vec<%s>" % L.nodeinfo):
                return ref(*L.self_loc(L.jobs_field))
            if ins.startswith("petgraph::graphmap::GraphMap<"):
                return ref(*L.self_loc(L.dag_field))
            if ins == "std::collections::HashMap<std::string::String, std::string::String>":
                return ref(*L.self_loc(L.history_field))
            if "PPGEvaluatorStrategy" in ins or ins == "T":
                return ref(*L.self_loc(L.strategy_field))
            if ins == "str" or ins == "std::string::String":
                return string([("param", body.name, tag)])
            return TOP
        return self.typed(TOP, ty)

    def analyze(self, body, args=None, state=None):
        st = state or State()
        fr = self.new_frame(body, ())
        for i in range(1, body.arg_count + 1):
            if args and i in args:
                st.locals[(fr.fid, i)] = args[i]
            else:
                st.locals[(fr.fid, i)] = self.param_av(body, i, st)
        collect = {}
        out = self.run(fr, st, collect=collect)
        return fr, out, collect
