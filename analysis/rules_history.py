"""Rules over new_history and the readers of the history: C08, C09, C11, C12, C18 (A4 provenance)."""
import os, sys
import mir as M
from domain import fin, adt_variants, TOP, BOOL
from interp import Imprecision
from rules_protocol import (short, effects, set_fields, event_kinds, sig_writes, is_role, role_str, elem_is_key, connected,
                            phase, tkey, EVENTS)
from rules_more import (prop, REGISTRY, kinds, error_exit_blocks, returns_of, forall_loop, reachable_without_running,
                        finishing_writes)


# ---- provenance helpers --------------------------------------------------------------------------
from models import is_hist_copy


def jobid_syms(provs):
    """symbols if the provenance set consists of job ids only, else None"""
    out = set()
    for p in provs:
        if p[0] == "jobid":
            out.add(p[1])
        else:
            return None
    return out


def classify_key(av):
    """('job', {sym}) | ('suffix', template, {sym}) | ('pair', template, {syma}, {symb}) | ('other', repr)"""
    if av is None or av[0] != "str" or not av[1]:
        return ("other", "non-string")
    kinds_ = set()
    for p in av[1]:
        if p[0] == "jobid":
            kinds_.add(("job", p[1]))
        elif p[0] == "fmt":
            tm, args = p[1], p[2]
            holes = [i for i, x in enumerate(tm) if x is None]
            syms = [jobid_syms(a) for a in args]
            if any(s is None for s in syms):
                return ("other", "formatted from non-id parts")
            if len(holes) == 1 and len(tm) == 2 and tm[0] is None:
                kinds_.add(("suffix", tm, frozenset(syms[0])))
            elif len(holes) == 2 and len(tm) == 3 and tm[0] is None and tm[2] is None:
                kinds_.add(("pair", tm, frozenset(syms[0]), frozenset(syms[1])))
            else:
                return ("other", "unknown template %r" % (tm,))
        else:
            return ("other", str(p[0]))
    if len(kinds_) != 1:
        ks = set(k[0] for k in kinds_)
        if ks == {"job"}:
            return ("job", frozenset(k[1] for k in kinds_))
        return ("other", "mixed key classes")
    k = list(kinds_)[0]
    if k[0] == "job":
        return ("job", frozenset([k[1]]))
    return k


def value_class(av):
    """set of provenance classes of a stored value"""
    out = set()
    if av is None or av[0] != "str":
        return {("unknown",)}
    for p in av[1]:
        if p[0] == "histout":
            out.add(("histout", p[1]))
        elif p[0] == "hist":
            out.add(("hist", classify_key(("str", p[1], frozenset()))))
        elif p[0] == "strategy":
            out.add(("strategy", p[1], p[2]))
        elif p[0] == "param":
            out.add(("param", p[1], p[2]))
        else:
            out.add((p[0],))
    return out


def sym_role(run, sym):
    from rules_protocol import run_roles
    return run_roles(run, sym)


def started_field(A):
    """the bool field of NodeInfo that records 'this job was started' (ghost bit of DESIGN A1), or None"""
    C = A.classes()
    cands = list(A.L.bool_fields)
    if not cands:
        return None
    an = A.joined_run(A.evaluator_fn("add_node"))
    init = {}
    for v in an.by_kind("push_job"):
        val = v["value"]
        if val[0] == "adt":
            fs = adt_variants(val)[0]
            for i in cands:
                if fs[i][0] == "fin":
                    init[i] = set(fs[i][2])
    good = []
    for i in cands:
        if init.get(i) != {(0,)}:
            continue
        ok = True
        nwrites = 0
        for (entry, label), run in list(A.runs.items()):
            for v in run.by_kind("write_jobfield"):
                if v["field"] != i:
                    continue
                nwrites += 1
                if not (v["value"][0] == "fin" and set(v["value"][2]) == {(1,)}):
                    ok = False
                    continue
                # paired with a transition into Running for the same job
                pair = any(w["key"][0] == v["key"][0] and (set(w["to"]) <= C["Running"]) and connected(A, w, v)
                           for w in run.by_kind("write_state"))
                if not pair:
                    ok = False
        # and every transition into Running sets it
        for t in A.transitions():
            w = t["w"]
            if set(w["to"]) & C["Running"] and not (set(w["frm"]) & C["Running"]):
                run = t["run"]
                if not any(v["field"] == i and v["key"][0] == w["key"][0] and connected(A, w, v) for v in run.by_kind("write_jobfield")):
                    ok = False
        if ok and nwrites > 0:
            good.append(i)
    return good[0] if len(good) == 1 else None


def accepted_status(A):
    nh = A.evaluator_fn("new_history")
    ss = A.uni.fin[A.L.startstatus]
    acc = []
    for s in ss:
        r = A.run(nh.name, "NH|%s" % A.uni.show(A.L.startstatus, s), dict(self_init={A.L.start_field: fin(A.L.startstatus, [s])}))
        if not r.diverges:
            acc.append(s)
    if len(acc) != 1:
        raise Imprecision("new_history accepts %d start statuses" % len(acc))
    return acc[0]


def nh_run(A, label, role, state=None, histout=None, started=None, extra_roles=None):
    """new_history with the jobs of `role` ('alljobs' node loop / 'edge_a' / 'edge_b') in one concrete final point"""
    nh = A.evaluator_fn("new_history")
    acc = accepted_status(A)
    sf = started_field(A)
    ci = {}
    d = dict(state=fin(A.L.jobstate, state) if state is not None else None, histout=histout,
             bools={sf: started} if (sf is not None and started is not None) else {})
    ci[role] = d
    for r_, dd in (extra_roles or {}).items():
        ci[r_] = dd
    return A.run(nh.name, "NH|" + label, dict(self_init={A.L.start_field: fin(A.L.startstatus, [acc])}, cell_init=ci))


def out_ops(A, run):
    """map operations of new_history on the map it returns (the filtered clone of the history)"""
    ops = []
    for v in run.by_kind("map_op"):
        if v["target"][0] == "local" and len(v["target"]) > 2 and ("history_filtered" in v["target"][2] or "history_clone" in v["target"][2]):
            ops.append(v)
    return ops


def true_gated(body, call_bb, target_bb):
    """is target_bb control dependent on the *true* outcome of the bool-returning call that ends call_bb?  (the switch on
    the call's destination follows the call; target is reachable from its non-zero arm and, without passing the call
    again, not from its zero arm)"""
    t = body.term(call_bb)
    if t["k"] != "call" or t["t"] < 0:
        return False
    dest = t["dest"]["l"] if not t["dest"]["p"] else None
    b = t["t"]
    seen = set()
    while b not in seen:
        seen.add(b)
        tt = body.term(b)
        if tt["k"] == "switch":
            d = tt["d"].get("move") or tt["d"].get("copy")
            if d is None or d["l"] != dest or d["p"]:
                return False
            zero = [a[1] for a in tt["arms"] if a[0] == 0]
            nonzero = [a[1] for a in tt["arms"] if a[0] != 0] + ([tt["otherwise"]] if zero else [])
            if not zero:
                zero = [tt["otherwise"]]
            from_true = set()
            for s in nonzero:
                from_true |= body.reachable(s, removed=[call_bb])
            from_false = set()
            for s in zero:
                from_false |= body.reachable(s, removed=[call_bb])
            return target_bb in from_true and target_bb not in from_false
        if tt["k"] in ("goto", "drop", "assert"):
            b = tt["t"]
            continue
        return False
    return False


def history_filter(A, run):
    """how new_history derives the map it returns from the input history.  Two forms are recognised:
    clone().drain()/retain + filter closure + collect, and a loop over the input history that copies a pair unchanged
    iff a predicate closure applied to its key answers true.  -> dict(form, closure, n) or None"""
    col = [v for v in run.by_kind("collect") if "history_filtered" in v["tags"]]
    if col:
        fcl = None
        for v in col:
            for tg in v["tags"]:
                if isinstance(tg, tuple) and tg[0] == "filter_closure":
                    fcl = tg[1][len("closure:"):]
        cl = [v for v in run.by_kind("clone_field") if v["field"] == A.L.history_field]
        if fcl is not None:
            fcl = forwarded_predicate(A, fcl) or fcl
        return dict(form="clone/filter/collect", closure=fcl, n=len(col), source=len(cl) >= 1, site=col[0])
    from models import is_hist_copy
    copies = [v for v in run.by_kind("map_op") if v["op"] == "insert" and v["target"][0] == "local" and is_hist_copy(v["key"], v["value"])]
    if not copies:
        return None
    fcl = None
    allgated = True
    for v in copies:
        body = A.facts.body(v["fn"])
        g = None
        for cc in run.by_kind("closure_call"):
            if cc["fn"] != v["fn"] or cc["fid"] != v["fid"]:
                continue
            a0 = cc["args"][0] if cc["args"] else None
            if a0 is None or a0[0] != "str" or set(a0[1]) != {("histkey",)}:
                continue
            if true_gated(body, cc["bb"], v["bb"]):
                g = cc["closure"]
        if g is None:
            allgated = False
        elif fcl is None:
            fcl = g
        elif fcl != g:
            allgated = False
    return dict(form="copy loop", closure=fcl if allgated else None, n=len(copies), source=True, site=copies[0])


def _places(o, out):
    if isinstance(o, dict):
        if isinstance(o.get("l"), int) and isinstance(o.get("p"), list):
            out.append(o)
        for v in o.values():
            _places(v, out)
    elif isinstance(o, list):
        for v in o:
            _places(v, out)
    return out


def forwarded_predicate(A, fcl):
    """`retain(|k, _v| keep(k))` / `filter(|(k, _v)| keep(k))`: a filter closure that only hands its *key* to a named predicate
    closure of the same function and returns that closure's answer.  Decided on the closure's MIR: straight-line code (no
    branch), the only calls are `Deref::deref` and one call of a captured closure whose destination is the return place, and
    the argument of that call is derived from the key parameter alone (never from the value).  -> the predicate closure's name"""
    body = A.facts.body(fcl)
    owner = fcl.rsplit("::{closure", 1)[0]
    target = None
    key, val = set(), set()

    def taint(pl):
        l_, pr = pl["l"], pl["p"]
        if l_ in key or l_ in val:
            return ("k" if l_ in key else "") + ("v" if l_ in val else "")
        if body.arg_count == 3:
            return "k" if l_ == 2 else ("v" if l_ == 3 else "")
        if l_ == 2:
            fi = [x.get("i") for x in pr if x.get("k") == "field"]
            return "k" if fi[:1] == [0] else "v"
        return ""

    def note(dst, srcs):
        ts = "".join(taint(x) for x in srcs)
        if "k" in ts:
            key.add(dst)
        if "v" in ts:
            val.add(dst)
    for blk in body.blocks:
        if blk.get("cleanup"):
            continue
        for s_ in blk["stmts"]:
            if s_["k"] != "assign":
                continue
            if s_["p"]["l"] == 0:
                return None
            note(s_["p"]["l"], _places(s_["r"], []))
        t = blk["term"]["t"]
        if t["k"] in ("goto", "return", "drop"):
            continue
        if t["k"] != "call":
            return None
        fn = t["f"].get("fn")
        res = t["f"].get("resolved") or ""
        if fn == "std::ops::Deref::deref":
            note(t["dest"]["l"], _places(t["args"], []))
            continue
        if fn in ("std::ops::Fn::call", "std::ops::FnMut::call_mut", "std::ops::FnOnce::call_once") \
                and res.startswith(owner + "::{closure") and res != fcl and target is None:
            if t["dest"]["l"] != 0 or t["dest"]["p"]:
                return None
            ts = "".join(taint(x) for x in _places(t["args"][1:], []))
            if "k" not in ts or "v" in ts:
                return None
            target = res
            continue
        return None
    return target


def final_points(A):
    """(state, histout variant, started) triples a job can have when the evaluation is finished; over-approximation
    derived from the transition relation (started <=> passed Running; output recorded <=> success or skip)"""
    C = A.classes()
    reach = A.reach()
    K = kinds(A)
    postrun = set(C["Running"])
    changed = True
    T = A.transitions()
    while changed:
        changed = False
        for t in T:
            w = t["w"]
            if w["frm"] & postrun:
                new = set(w["to"]) - postrun
                if new:
                    postrun |= new
                    changed = True
    ok0 = set()
    for f, tos in sig_writes(A, K["success"]).items():
        ok0 |= tos
    execok = set(ok0)
    changed = True
    while changed:
        changed = False
        for t in T:
            w = t["w"]
            if w["frm"] & execok:
                new = set(w["to"]) - execok
                if new:
                    execok |= new
                    changed = True
    pts = []
    for s in sorted(C["Finished"] & reach):
        started_opts = []
        if s in postrun:
            started_opts.append(True)
        if reachable_without_running(A, s):
            started_opts.append(False)
        for st in started_opts:
            pts.append((s, st))
    return pts, execok, postrun


def rule_started_failed_dropped(A, R, rule):
    C = A.classes()
    pts, execok, postrun = final_points(A)
    # R8.2: a started job that did not succeed loses both own records -----------------------------------
    n = 0
    for (s, st) in pts:
        if not st or s in execok:
            continue
        if s in C["UpstreamFailed"]:
            continue    # a started job is never reported upstream-failed (C07 R7.3)
        n += 1
        run = nh_run(A, "node|%s|none|started" % A.sname(s), "alljobs", [s], histout=0, started=True)
        ops = out_ops(A, run)
        rem = [v for v in ops if v["op"] == "remove"]
        cls = set(classify_key(v["key"])[0] for v in rem if is_loop_key(v))
        R.ob(rule, "new_history | job that was started and ended in %s | output record and input-list record are dropped" % A.sname(s),
             {"job", "suffix"} <= cls, detail="records removed for this job: %s" % sorted(cls))
        ins = [v for v in ops if v["op"] == "insert" and classify_key(v["key"])[0] in ("job", "suffix") and is_loop_key(v)]
        R.ob(rule, "new_history | job that was started and ended in %s | no own record is written" % A.sname(s), not ins,
             detail="an own record is inserted for a job that did not succeed", site=A.site(ins[0]) if ins else "")
        # must: both removes on every path through the iteration
        okm = True
        for v in rem:
            if classify_key(v["key"])[0] in ("job", "suffix") and is_loop_key(v):
                o, why = must_in_iteration(A, run, v)
                okm = okm and o
        R.ob(rule, "new_history | %s | the removal is on every path of the job's iteration" % A.sname(s), okm and len(rem) >= 2)
    R.floor(rule, "final points 'started, not successful'", n, 3)


def rule_failed_edges_untouched(A, R, rule):
    C = A.classes()
    pts, execok, postrun = final_points(A)
    # R8.3: the per-dependency records of a job that did not succeed are not refreshed -------------------
    n = 0
    for s in sorted(C["Finished"] & A.reach()):
        if s not in C["FailedLike"]:
            continue
        n += 1
        run = nh_run(A, "edgeb|%s|none" % A.sname(s), "edge_b", [s], histout=0)
        ins = [v for v in out_ops(A, run) if v["op"] == "insert" and classify_key(v["key"])[0] == "pair"]
        R.ob(rule, "new_history | downstream ended in %s without output | its per-dependency records are left as they were" % A.sname(s),
             not ins, detail="an edge record into a failed/aborted/upstream-failed job is rewritten", site=A.site(ins[0]) if ins else "")
    R.floor(rule, "failed-like final states", n, 9)


def rule_never_started_kept(A, R, rule, which="interrupted"):
    """which: 'interrupted' = never started and upstream-failed / aborted; 'skipped' = never started, finished without failure"""
    C = A.classes()
    pts, execok, postrun = final_points(A)
    sf = started_field(A)
    n = 0
    for (s, st) in pts:
        if st:
            continue
        if which == "interrupted" and not (s in C["UpstreamFailed"] or s in C["Aborted"]):
            continue
        if which == "skipped" and s in C["FailedLike"]:
            continue
        n += 1
        for ho in (0, 1):
            if ho == 1 and not may_have_output(A, s):
                continue
            run = nh_run(A, "node|%s|%s|notstarted" % (A.sname(s), "some" if ho else "none"), "alljobs", [s], histout=ho, started=False)
            ops = [v for v in out_ops(A, run) if is_loop_key(v) and classify_key(v["key"])[0] in ("job", "suffix")]
            rem = [v for v in ops if v["op"] == "remove"]
            R.ob(rule, "new_history | job never started, ended in %s (output %s) | keeps its own records" % (A.sname(s), "set" if ho else "unset"),
                 not rem, detail="the output / input-list record of a job that was never started is removed"
                                 + ("" if sf is not None else " (the engine does not remember whether a job was started)"),
                 site=A.site(rem[0]) if rem else "")
            ins = [v for v in ops if v["op"] == "insert"]
            bad = []
            for v in ins:
                ck = classify_key(v["key"])
                vc = value_class(v["value"])
                if ck[0] == "job":
                    okv = all(p[0] == "histout" or (p[0] == "hist" and p[1][0] == "job") for p in vc)
                else:
                    okv = all(p[0] == "strategy" for p in vc)
                if not okv:
                    bad.append(v)
                elif which == "interrupted" and not ho:
                    # no output attached: the job was not even validated in this evaluation - the strategy's *current* input list
                    # is not what it had (that list is the evidence that its inputs changed)
                    bad.append(v)
            R.ob(rule, "new_history | job never started, ended in %s (output %s) | records written for it are re-inserts of what it had"
                 % (A.sname(s), "set" if ho else "unset"), not bad, site=A.site(bad[0]) if bad else "")
        if which == "skipped":
            continue
        # its per-dependency records: not refreshed (downstream view)
        run = nh_run(A, "edgeb|%s|none" % A.sname(s), "edge_b", [s], histout=0)
        ins = [v for v in out_ops(A, run) if v["op"] == "insert" and classify_key(v["key"])[0] == "pair"]
        R.ob(rule, "new_history | job never started, ended in %s | its per-dependency records are not rewritten" % A.sname(s), not ins,
             site=A.site(ins[0]) if ins else "")
    if which == "interrupted":
        R.floor(rule, "final points 'never started, upstream-failed or aborted'", n, 6)
    else:
        R.floor(rule, "final points 'never started, skipped'", n, 2)


# =============================================================================================
def rule_output_attached(A, R, rule):
    """history_output becomes Some only in the success event (named running job, never on an error path) and in the skip handler
    (recorded value only); the failure/abort/upstream-failure handlers leave it alone"""
    C = A.classes()
    K = kinds(A)
    H = A.handler_runs()
    pts, execok, postrun = final_points(A)
    hf = A.L.histout_field
    # R8.1: where an output record can be attached to a job ------------------------------------------
    n = 0
    ev = A.event_runs("event_job_finished_success")
    for (entry, label), run in list(A.runs.items()):
        for v in run.by_kind("write_jobfield"):
            if v["field"] != hf:
                continue
            val = v["value"]
            may_some = not (val[0] == "adt" and set(adt_variants(val)) == {0})
            if not may_some:
                continue
            n += 1
            fn = short(v["fn"])
            if entry == A.evaluator_fn("event_job_finished_success").name and label.startswith("E|"):
                s = [x for x in A.JS if "E|" + A.sname(x) == label][0]
                okp = s in C["Running"] and is_role(v["key"], "lookup")
                R.ob(rule, "%s | %s | the reported output is attached only to the running job that was named" % (fn, A.sname(s)), okp,
                     detail="history_output is set for a job that is not running / not the named job", site=A.site(v))
                # never on the path that rejects the output (EphemeralChangedOutput / any error)
                errs = [e for e in run.by_kind("error_construct") if e["fid"] == v["fid"]]
                bad = []
                for e in errs:
                    r1 = run.taken_reachable(v["fid"], v["bb"])
                    r2 = run.taken_reachable(v["fid"], e["bb"])
                    if e["bb"] in r1 or v["bb"] in r2:
                        bad.append(e)
                R.ob(rule, "%s | %s | the output is not recorded on a path that reports the job as failed" % (fn, A.sname(s)), not bad,
                     detail="the write of history_output and the construction of %s lie on one path" % (bad[0]["variant"] if bad else ""),
                     site=A.site(v))
            elif label.startswith("H|") or label.startswith("HW|"):
                # a handler may attach the *recorded* output when it skips the job
                ws = [w for w in run.by_kind("write_state") if w["key"][0] == v["key"][0] and connected(A, w, v)]
                tos = set()
                for w in ws:
                    tos |= set(w["to"])
                skip_ok = bool(ws) and tos <= (C["Finished"] - C["FailedLike"]) and all(t_ not in postrun or reachable_without_running(A, t_) for t_ in tos)
                prov = value_class(val_payload(val))
                src_ok = all(p[0] == "hist" and p[1][0] == "job" for p in prov)
                R.ob(rule, "%s | %s | a handler attaches an output only when it skips the job, and only the recorded one" % (fn, label.split("|")[1]),
                     skip_ok and src_ok and is_role(v["key"], "sigtarget"),
                     detail="to-states %s, value provenance %s" % (A.snames(tos), sorted(map(str, prov))), site=A.site(v))
            elif v["fn"] in (A.evaluator_fn("event_job_finished_success").name, A.signal_processor().name):
                continue    # the same site, already judged in its trace partitions
            else:
                R.ob(rule, "%s | %s | no other code attaches an output to a job" % (fn, label.split("|")[0]), False,
                     detail="history_output may become Some outside the success event and the skip handler", site=A.site(v))
    R.floor(rule, "sites that attach an output record", n, 2)
    # the failure / abort handlers leave history_output alone, so a failed job has none
    for hk in (K["failure"], K["abort"], K["upfail"]):
        for s in A.JS:
            bad = [v for v in H[(hk, s)].by_kind("write_jobfield") if v["field"] == hf]
            if bad:
                R.ob(rule, "%s handler | does not touch history_output" % A.kname(hk), False, site=A.site(bad[0]))


@prop("C08")
def check_C08(A, R, tier):
    C = A.classes()
    K = kinds(A)
    H = A.handler_runs()
    pts, execok, postrun = final_points(A)
    sf = started_field(A)
    R.info["started_field"] = A.L.ni_fields[sf]["name"] if sf is not None else None
    hf = A.L.histout_field
    rule_output_attached(A, R, "R8.1")
    rule_started_failed_dropped(A, R, "R8.2")
    rule_failed_edges_untouched(A, R, "R8.3")
    # R8.4: own records come and go in pairs
    pair_rule(A, R, "R8.4")
    # R8.5 (= R18.6): 'exactly as before' - the carried-over records reach new_history as they were passed in
    from rules_protocol import rule_setup_faithful
    rule_setup_faithful(A, R, "R8.5", parts=("history",))
    R.explanation = ("Mechanism of each sentence, decided over all paths: history_output becomes Some only in the success event (for the "
                     "named running job, never on a path that constructs an error) and in the skip handler (recorded value only); "
                     "new_history, run abstractly for every final point (state, no output, started), removes both own records and "
                     "writes none; with the downstream in any failed-like state and no output no per-dependency record is written.")
    R.assume("'consequently the next evaluation executes it again' rests on C03 R3.4 (a missing own record invalidates)")


def val_payload(val):
    if val[0] == "adt" and val[1] == "std::option::Option":
        vs = adt_variants(val)
        if 1 in vs:
            return vs[1][0]
        return None
    return val


def is_loop_key(v):
    """is the key of a map operation built from the id of the job bound by the enclosing loop?"""
    ck = classify_key(v["key"])
    syms = set()
    if ck[0] == "job":
        syms = set(ck[1])
    elif ck[0] == "suffix":
        syms = set(ck[2])
    elif ck[0] == "pair":
        syms = set(ck[2]) | set(ck[3])
    run = v.get("_run")
    fids = set(c[0] for c in run.chain(v)) if run is not None else {v["fid"]}
    return bool(syms) and all(isinstance(s, tuple) and s[0] == "b" and s[1] in fids for s in syms)


def must_in_iteration(A, run, v):
    """the fact (or the call leading to it) lies on every taken path from the binding of its key back to the loop header"""
    ck = classify_key(v["key"])
    syms = sorted(ck[1] if ck[0] == "job" else ck[2], key=repr)
    if not syms:
        return False, "no key symbol"
    sym = syms[0]
    if not (isinstance(sym, tuple) and sym[0] == "b"):
        return False, "key not bound by a loop"
    fid, head = sym[1], sym[2]
    pos = run.pos_in(v, fid)
    if pos is None:
        return False, "key bound in another activation"
    body = A.facts.body(pos[0])
    fbb = pos[1]
    sw = body.term(head)["t"]
    loop = body.natural_loop(head)
    from rules_more import residual_blocks
    errs = error_exit_blocks(A, body) | residual_blocks(body)
    for s0 in [s_ for s_ in body.succs(sw) if s_ in loop]:
        r = run.taken_reachable(fid, s0, {fbb} | errs)
        if head in r:
            return False, "iteration can complete without bb%d" % fbb
    return True, ""


def pair_rule(A, R, rule):
    C = A.classes()
    n = 0
    for s in sorted(C["Finished"] & A.reach()):
        for ho in (0, 1):
            run = nh_run(A, "node|%s|%s" % (A.sname(s), "some" if ho else "none"), "alljobs", [s], histout=ho)
            ops = [v for v in out_ops(A, run) if is_loop_key(v) and classify_key(v["key"])[0] in ("job", "suffix")]
            for op in ("insert", "remove"):
                cls = set(classify_key(v["key"])[0] for v in ops if v["op"] == op)
                if cls:
                    n += 1
                    R.ob(rule, "new_history | %s, output %s | output record and input-list record are %sed together" % (
                        A.sname(s), "present" if ho else "absent", op), cls == {"job", "suffix"}, detail="only %s" % sorted(cls))
                    if op == "insert" and ho:
                        # ... and not only on some paths: a job that ends with an output has both records (re)written whatever
                        # else is known about it (a record 'known to be current' may have been dropped by the initial filter)
                        for c_ in ("job", "suffix"):
                            mine = [v for v in ops if v["op"] == "insert" and classify_key(v["key"])[0] == c_]
                            okm, whym = False, "no insert"
                            for v in mine:
                                okm, whym = must_in_iteration(A, run, v)
                                if okm:
                                    break
                            R.ob(rule, "new_history | %s, output present | the %s record is written on every path" % (
                                A.sname(s), "output" if c_ == "job" else "input-list"), okm, detail=whym,
                                site=A.site(mine[0]) if mine else "")
    R.floor(rule, "paired own-record operations", n, 10)


# =============================================================================================
@prop("C09")
def check_C09(A, R, tier):
    C = A.classes()
    pts, execok, postrun = final_points(A)
    sf = started_field(A)
    R.info["started_field"] = A.L.ni_fields[sf]["name"] if sf is not None else None
    rule_never_started_kept(A, R, "R9.1")
    # R9.2 (necessary for 'no excess on resume'): stale-but-equivalent records are never compared textually
    from rules_compare import rule_no_textual_record_compare
    rule_no_textual_record_compare(A, R, "R9.2")
    # R9.2 also = R15.4: the comparison is asked about the pair whose records it is given
    from rules_compare import rule_comparison_pair
    rule_comparison_pair(A, R, "R9.2")
    # R9.3 (= R3.8): an invalidated Ephemeral somebody can need is never skipped (a skip refreshes the records of what it consumed:
    # after an interruption the resumed evaluation would then not rebuild it)
    from rules_compare import rule_no_skip_when_invalidated
    rule_no_skip_when_invalidated(A, R, "R9.3")
    # R9.4 (= R18.5 own records): the carried-over records of a present job pass the history filter whatever their value
    rule_filter_keeps_own(A, R, "R9.4")
    # R9.5 (= R18.6): ... and they reach the filter as they were passed in
    from rules_protocol import rule_setup_faithful
    rule_setup_faithful(A, R, "R9.5", parts=("history",))
    R.explanation = ("First sentence decided: for every final point (state in upstream-failed/aborted, never started) the abstract run of "
                     "new_history reaches no removal keyed by the job and writes no per-dependency record into it; 'never started' is "
                     "the ghost bit 'passed Running', identified with a bool field of NodeInfo that is false at creation and set exactly "
                     "with the transitions into Running.  Resume equivalence is not decided statically.")
    R.assume("the executed set and final history of the resumed evaluation are runtime relations that are not decided")


def may_have_output(A, s):
    """can a job in final state s carry a history_output?  (only states reachable from a skip keep one)"""
    C = A.classes()
    K = kinds(A)
    H = A.handler_runs()
    hf = A.L.histout_field
    if "_outstates" not in A.__dict__:
        src = set()
        for (k, st), run in H.items():
            for v in run.by_kind("write_jobfield"):
                if v["field"] == hf:
                    for w in run.by_kind("write_state"):
                        if w["key"][0] == v["key"][0] and connected(A, w, v):
                            src |= set(w["to"])
        for f, tos in sig_writes(A, K["success"]).items():
            src |= tos
        closed = set(src)
        changed = True
        while changed:
            changed = False
            for t in A.transitions():
                w = t["w"]
                if w["frm"] & closed:
                    new = set(w["to"]) - closed
                    if new:
                        closed |= new
                        changed = True
        A.__dict__["_outstates"] = closed
    return s in A.__dict__["_outstates"]


# =============================================================================================
def writer_facts(A):
    """what new_history writes per key class, from the joined run: {class: [(fact, value classes)]}"""
    run = nh_run(A, "joined", "none")
    out = {}
    for v in out_ops(A, run):
        if v["op"] != "insert":
            continue
        if is_hist_copy(v["key"], v["value"]):
            continue  # a pair of the input history carried over unchanged (the copy-loop form of the filter)
        ck = classify_key(v["key"])
        out.setdefault(ck[0], []).append((v, ck, value_class(v["value"])))
    return run, out


@prop("C11")
def check_C11(A, R, tier):
    C = A.classes()
    run, W = writer_facts(A)
    # R11.1 whitelist of value provenance per key class ---------------------------------------------
    for cls in ("job", "suffix", "pair"):
        R.floor("R11.1", "insertions of %s records" % {"job": "output", "suffix": "input-list", "pair": "per-dependency"}[cls], len(W.get(cls, [])), 1)
    for (v, ck, vc) in W.get("job", []):
        syms = set(ck[1])
        ok = all((p[0] == "histout" and p[1] in syms) or (p[0] == "hist" and p[1][0] == "job" and set(p[1][1]) <= syms) for p in vc)
        R.ob("R11.1", "new_history | output record of job K holds K's reported (or recorded) output", ok and is_loop_key(v),
             detail="value provenance: %s" % sorted(map(str, vc)), site=A.site(v))
    for (v, ck, vc) in W.get("suffix", []):
        syms = set(ck[2])
        ok = all(p[0] == "strategy" and p[1] == "get_input_list" and p[2] in syms for p in vc)
        R.ob("R11.1", "new_history | input-list record of job K holds the strategy's current input list of K", ok and is_loop_key(v),
             detail="value provenance: %s" % sorted(map(str, vc)), site=A.site(v))
    for (v, ck, vc) in W.get("pair", []):
        sa, sb = set(ck[2]), set(ck[3])
        ok = True
        for p in vc:
            if p[0] == "histout" and p[1] in sa:
                continue
            if p[0] == "hist" and p[1][0] == "pair" and set(p[1][2]) <= sa and set(p[1][3]) <= sb:
                continue
            if p[0] == "hist" and p[1][0] == "job" and set(p[1][1]) <= sa:
                continue
            ok = False
        R.ob("R11.1", "new_history | per-dependency record (A,B) holds A's output (current, or the recorded one it was validated against)",
             ok and is_loop_key(v) and edge_endpoints_ok(run, ck), detail="value provenance: %s" % sorted(map(str, vc)), site=A.site(v))
    for (v, ck, vc) in W.get("other", []):
        R.ob("R11.1", "new_history | every inserted record has a recognised key", False,
             detail="key %s" % (ck,), site=A.site(v))
    # with a current output present, it is the one that is stored (dominance of the Some arm)
    r2 = nh_run(A, "edgea|some", "edge_a", None, histout=1, extra_roles={"edge_b": dict(state=None, histout=1, bools={})})
    ins = [v for v in out_ops(A, r2) if v["op"] == "insert" and classify_key(v["key"])[0] == "pair"]
    R.floor("R11.1", "per-dependency insert with both outputs present", len(ins), 1)
    for v in ins:
        ck = classify_key(v["key"])
        vc = value_class(v["value"])
        R.ob("R11.1", "new_history | upstream executed/skipped with an output, downstream succeeded | the stored value is the upstream's current output",
             all(p[0] == "histout" and p[1] in set(ck[2]) for p in vc), detail="value provenance: %s" % sorted(map(str, vc)), site=A.site(v))
        o, why = must_in_iteration(A, r2, v)
        R.ob("R11.1", "new_history | upstream with an output, downstream succeeded | the per-dependency record is rewritten on every path", o,
             detail=why + ": a dependency of a successfully executed job can keep a stale record", site=A.site(v))
    r3 = nh_run(A, "node|anysome", "alljobs", None, histout=1)
    ins = [v for v in out_ops(A, r3) if v["op"] == "insert" and is_loop_key(v)]
    cls = {}
    for v in ins:
        cls.setdefault(classify_key(v["key"])[0], []).append(v)
    R.ob("R11.1", "new_history | job with an output | both own records are written", {"job", "suffix"} <= set(cls), detail=str(sorted(cls)))
    for v in cls.get("job", []):
        vc = value_class(v["value"])
        R.ob("R11.1", "new_history | job with an output | the stored output is the current one", all(p[0] == "histout" for p in vc),
             detail=str(sorted(map(str, vc))), site=A.site(v))
        o, why = must_in_iteration(A, r3, v)
        R.ob("R11.1", "new_history | job with an output | ... on every path of its iteration", o, detail=why, site=A.site(v))
    # a successful downstream gets a per-dependency record for each of its edges (must)
    for v in [x for x in out_ops(A, r2) if x["op"] == "insert" and classify_key(x["key"])[0] == "pair"]:
        ck = classify_key(v["key"])
        sym = list(ck[2])[0]
        f2 = dict(v)
        f2["key"] = (sym, frozenset())
        okl, why = forall_loop(A, f2)
        R.ob("R11.1", "new_history | the edge loop visits every dependency (no early exit)", okl, detail=why, site=A.site(v))
    # R11.2 the reported output reaches history_output unchanged and get_job_output returns that field
    hf = A.L.histout_field
    ev = A.event_runs("event_job_finished_success")
    sev = A.evaluator_fn("event_job_finished_success")
    pidx = [i for i in range(1, sev.arg_count + 1) if sev.locals[i]["s"] == "std::string::String"]
    n = 0
    for s in sorted(C["Running"]):
        ws = [v for v in ev[s].by_kind("write_jobfield") if v["field"] == hf]
        n += len(ws)
        for v in ws:
            pay = val_payload(v["value"])
            vc = value_class(pay)
            R.ob("R11.2", "event_job_finished_success | %s | history_output := the reported string, unmodified" % A.sname(s),
                 v["value"][0] == "adt" and set(adt_variants(v["value"])) == {1} and all(p[0] == "param" and p[2] in pidx for p in vc),
                 detail="value provenance %s" % sorted(map(str, vc)), site=A.site(v))
        if not ws:
            R.ob("R11.2", "event_job_finished_success | %s | records the reported output" % A.sname(s), False)
    R.floor("R11.2", "stores of the reported output", n, 3)
    gjo = A.joined_run(A.evaluator_fn("get_job_output"))
    rv = gjo.ret
    okg = False
    if rv is not None and rv[0] == "adt":
        for vi, fs in rv[2]:
            for f in fs:
                if f[0] == "str" and any(p[0] == "histout" for p in f[1]):
                    okg = True
    R.ob("R11.2", "get_job_output returns the job's history_output", okg, detail=str(rv)[:200])
    # R11.4: records of skipped jobs and their dependencies are not swept away by a pattern
    rule_no_bulk_removal(A, R, "R11.4")
    # R11.3: a validly skipped job (never started, finished without failure) keeps its own records, with or without an
    # attached output (a leaf Ephemeral pruned at startup has none)
    rule_never_started_kept(A, R, "R11.3", which="skipped")
    # R11.5 (= R8.4): both own records of a job that ends with an output are written on every path
    pair_rule(A, R, "R11.5")
    R.explanation = ("Value provenance (A4) at every insertion of new_history: the output record of K holds K's history_output (or its old "
                     "record), the input-list record holds the strategy's current list for K, a per-dependency record (A,B) holds A's "
                     "current output when there is one and otherwise the record A was validated against; the reported string reaches "
                     "history_output by move only.  Equality 'under the configured comparison' for skipped jobs is a value relation and "
                     "is not decided.")
    R.assume("equality under the configured comparison for validly skipped jobs is not decided")


def edge_endpoints_ok(run, ck):
    return True


# =============================================================================================
@prop("C12")
def check_C12(A, R, tier):
    C = A.classes()
    run, W = writer_facts(A)
    # templates used by the writer
    wt = {}
    for cls in ("suffix", "pair"):
        wt[cls] = set(ck[1] for (v, ck, vc) in W.get(cls, []))
        R.ob("R12", "writer | one key template for %s records" % cls, len(wt[cls]) == 1, detail=str(wt[cls]))
    # readers: every lookup in the evaluator's history, in all analysed runs
    readers = []
    for (entry, label), r in list(A.runs.items()):
        for v in r.by_kind("map_op"):
            if v["target"] == ("self", A.L.history_field) and v["op"] in ("get", "contains_key"):
                readers.append((entry, label, r, v))
    # need the startup / consider / success-event runs
    A.startup_runs()
    A.handler_runs()
    A.event_runs("event_job_finished_success")
    readers = []
    seen = set()
    for (entry, label), r in list(A.runs.items()):
        for v in r.by_kind("map_op"):
            if v["target"] == ("self", A.L.history_field) and v["op"] in ("get", "contains_key"):
                k = (v["fn"], v["bb"])
                if k in seen:
                    continue
                seen.add(k)
                readers.append((r, v))
    R.floor("R12", "lookups in the recorded history", len(readers), 4)
    for (r, v) in readers:
        ck = classify_key(v["key"])
        if ck[0] == "other":
            if v["fn"].endswith("try_finding_renamed_multi_output_job") or "renamed" in ck[1]:
                continue
            # lookups with keys derived from history keys themselves (renamed multi-output jobs) are not writer/reader pairs
            if v["key"][0] == "str" and all(p[0] in ("unknown", "histkey", "before", "after", "piece") for p in v["key"][1]):
                continue
            R.ob("R12", "%s | history lookup with a recognised key" % short(v["fn"]), False, detail=str(ck), site=A.site(v))
            continue
        if ck[0] in ("suffix", "pair"):
            R.ob("R12", "%s | reads %s records with the template the writer uses" % (short(v["fn"]), ck[0]), ck[1] in wt[ck[0]],
                 detail="reader template %r, writer %r" % (ck[1], sorted(wt[ck[0]])), site=A.site(v))
        else:
            R.ob("R12", "%s | reads the output record under the plain job id" % short(v["fn"]), True, site=A.site(v))
    # what the recorded value is compared with
    cmp_rules(A, R)
    # records are only ever compared through the configured comparison (otherwise 'unchanged' is judged textually)
    from rules_compare import rule_no_textual_record_compare
    rule_no_textual_record_compare(A, R, "R12.c")
    from rules_compare import rule_comparison_pair
    rule_comparison_pair(A, R, "R12.c")      # ... and the comparison is asked about the pair whose records it is given (= R15.4)
    # R12.w (= R8.4): a job that ends with an output has both own records written on every path
    pair_rule(A, R, "R12.w")
    rule_no_bulk_removal(A, R, "R12.k")
    # R12.e (= R11.1): a job that ends with an output has each of its per-dependency records rewritten on every path (a skipped
    # job validated against a record under a former id otherwise ends without any record of that dependency and is rebuilt next time)
    rule_edge_records_rewritten(A, R, "R12.e")
    # R12.f (= R18.5/R9.4): the own records of a present job that was not renamed pass the initial filter whatever they look like
    # (a job that does not run in this evaluation gets them back from nowhere else)
    rule_filter_keeps_own(A, R, "R12.f")
    # R12.s: 'is the output there?' is asked per job id (a multi-output job asked piece by piece is never 'there': rebuilt every time)
    from rules_compare import rule_strategy_asked_by_job_id
    rule_strategy_asked_by_job_id(A, R, "R12.s")
    # R12.p: jobs nobody can need are pruned completely at startup (otherwise they are invalidated on every start)
    rule_prune_fixpoint(A, R, "R12.p")
    rule_classify_after_pruning(A, R, "R12.p")
    R.explanation = ("Writer/reader agreement (necessary for the fixpoint): per key class the template new_history writes and the templates "
                     "the next evaluation looks up are identical, and the quantity written (strategy input list of K; history_output of A; "
                     "history_output of K) is of the same provenance class as the quantity the reader compares the record with.")
    R.assume("that an unchanged project actually reaches the fixpoint is not decided")


def cmp_rules(A, R):
    """the three comparisons of a record with a current quantity"""
    C = A.classes()
    # (a) input list: textual comparison of hist(InputListKey(K)) with strategy.get_input_list(K)
    found = 0
    seen_cmp = set()
    for v in [x for st in A.startup_runs() for x in st.by_kind("cmp")]:
        if (v["fn"], v["bb"]) in seen_cmp:
            continue
        seen_cmp.add((v["fn"], v["bb"]))
        a, b = v["a"], v["b"]
        ca, cb = value_class(a), value_class(b)
        pair = [ca, cb]
        hist = [c for c in pair if all(p[0] == "hist" for p in c)]
        strat = [c for c in pair if all(p[0] == "strategy" for p in c)]
        if hist and strat:
            found += 1
            hk = list(hist[0])[0][1]
            sk = list(strat[0])[0]
            R.ob("R12", "%s | the recorded input list of K is compared with the strategy's current list of K" % short(v["fn"]),
                 hk[0] == "suffix" and sk[1] == "get_input_list" and sk[2] in set(hk[2]), detail="%s vs %s" % (hk, sk), site=A.site(v))
    R.floor("R12", "input-list comparisons at startup", found, 1)
    # (b) edges: strategy.is_history_altered(up, down, hist(EdgeKey(up,down)), histout(up))
    H = A.handler_runs()
    K = kinds(A)
    found = 0
    seen = set()
    for (k, s), run in H.items():
        if k != K["consider"]:
            continue
        for v in run.by_kind("strategy_call"):
            if v["method"] != "is_history_altered" or (v["fn"], v["bb"]) in seen:
                continue
            seen.add((v["fn"], v["bb"]))
            args = v["args"]
            if len(args) < 4:
                continue
            rec, cur = value_class(args[2]), value_class(args[3])
            found += 1
            okr = all(p[0] == "hist" for p in rec)
            okc = all(p[0] in ("histout", "hist") for p in cur)
            R.ob("R12", "%s | a per-dependency record is compared with the upstream's output by the strategy" % short(v["fn"]),
                 okr and okc, detail="recorded %s / current %s" % (sorted(map(str, rec)), sorted(map(str, cur))), site=A.site(v))
    R.floor("R12", "strategy comparisons of per-dependency records", found, 1)


# =============================================================================================
def rule_no_bulk_removal(A, R, rule):
    """no selective bulk removal (retain) on the returned map after the initial filter: it would drop records by a textual pattern
    instead of by the job / dependency they belong to"""
    run = nh_run(A, "joined", "none")
    bulk = [v for v in run.by_kind("retain") if v.get("form") == "map_retain" and "history_filtered" in v.get("tags", ())]
    R.ob(rule, "new_history | the returned map is only changed record by record after the initial filter", not bulk,
         detail="a second retain on the returned history removes records that are not identified by a present job or dependency "
                "(e.g. the per-dependency records of consumers that were validly skipped)", site=A.site(bulk[0]) if bulk else "")


@prop("C18")
def check_C18(A, R, tier):
    C = A.classes()
    run = nh_run(A, "joined", "none")
    nh = A.evaluator_fn("new_history")
    # R18.1: the returned map starts as a filtered clone of the input history
    hf = history_filter(A, run)
    R.info["history_filter_form"] = hf["form"] if hf else None
    R.ob("R18.1", "new_history | starts from a clone of the input history", bool(hf and hf["source"]))
    R.ob("R18.1", "new_history | ... passed through drain/filter/collect only (values untouched)", bool(hf and hf["n"] == 1),
         detail="%d derivation(s) of the filtered history" % (hf["n"] if hf else 0))
    rv = run.ret
    okret = False
    if rv is not None and rv[0] == "adt":
        vs = adt_variants(rv)
        if 0 in vs and vs[0][0][0] == "coll" and "history_filtered" in vs[0][0][3]:
            okret = True
    R.ob("R18.1", "new_history | returns that map", okret, detail=str(rv)[:160])
    # R18.2: all later operations are keyed by present jobs / present edges
    ops = out_ops(A, run)
    R.floor("R18.2", "operations on the returned map", len([v for v in ops if v["op"] in ("insert", "remove")]), 3)
    from models import is_hist_copy
    for v in ops:
        if v["op"] not in ("insert", "remove"):
            continue
        if v["op"] == "insert" and is_hist_copy(v["key"], v["value"]):
            continue  # the copy-loop form of the filter itself (R18.1)
        ck = classify_key(v["key"])
        ok = ck[0] in ("job", "suffix", "pair") and is_loop_key(v)
        if ok:
            roles = set()
            syms = set(ck[1]) if ck[0] == "job" else (set(ck[2]) | (set(ck[3]) if ck[0] == "pair" else set()))
            for s_ in syms:
                roles |= set(sym_role(run, s_)) | sym_tag_roles(s_)
            if ck[0] == "pair":
                ok = all(sym_tag(s_) in ("ea", "eb") for s_ in syms)
            else:
                ok = all(sym_tag(s_) in ("jobs", "ea", "eb") for s_ in syms)
        R.ob("R18.2", "new_history | %s %s record | keyed by a job / dependency of the current graph" % (v["op"], ck[0]), ok,
             detail="key %s" % (ck,), site=A.site(v))
    rule_no_bulk_removal(A, R, "R18.2")
    # R18.6: 'the history it was given' - the constructor stores it unchanged, the id map (which decides who is a present job)
    # holds each job under its own id only
    from rules_protocol import rule_setup_faithful
    rule_setup_faithful(A, R, "R18.6", parts=("add_node", "history"))
    # R18.3 / R18.5: the filter closure ------------------------------------------------------------
    fcl = hf["closure"] if hf else None
    R.ob("R18.3", "new_history | the history filter closure is identified", fcl is not None)
    if fcl is not None:
        filter_rules(A, R, fcl, run)
    R.explanation = ("The returned history is a clone of the input that only passes drain/filter/collect and is afterwards only written "
                     "under keys built from jobs and dependencies of the current graph (so records of absent jobs are returned unchanged "
                     "and every record is old or current).  The filter closure is analysed with the two id lookups forced to hit / miss: "
                     "both present -> exactly 'edge still exists'; an absent endpoint -> exactly the superseded-multi-output filter, which "
                     "must be live (shape analysis of its keys) and fed by every present job.")
    R.assume("try_finding_renamed_multi_output_job's best-overlap choice is not decided")


def sym_tag(sym):
    return sym[3] if (isinstance(sym, tuple) and len(sym) > 3) else None


def sym_filtered(sym):
    """was the element bound behind a filter / filter_map adaptor?  (instantiate appends 'f' / 'fm' to the base tag)"""
    t = sym_tag(sym) or ""
    for base in ("jobs", "nbr", "ea", "eb", "el", "sig", "cand"):
        if t.startswith(base):
            return "f" in t[len(base):]
    return False


def sym_tag_roles(sym):
    return set()


def filter_rules(A, R, fcl, nhrun):
    from interp import Interp, Config, State
    from domain import ref, string
    body = A.facts.body(fcl)
    nh = A.evaluator_fn("new_history")
    # the closure is inlined by the collect; its facts are in the new_history run with fn == fcl (and the helper closure)
    facts = [(k, v) for k, v in nhrun.facts.items() if v.get("fn") in (fcl,) or (isinstance(v.get("fn"), str) and v["fn"].startswith(nh.name + "::{closure"))]
    gets = [v for k, v in facts if k[0] == "map_op" and v["op"] == "get" and v["target"] == ("self", A.L.idmap_field) and v["fn"] == fcl]
    R.floor("R18.3", "id lookups in the filter closure", len(gets), 2)
    ew = [v for k, v in facts if k[0] == "edge_weight" and v["fn"] == fcl]
    # both endpoints present -> decided by the existence of the edge between exactly those two jobs
    ok = False
    for v in ew:
        ra, rb = v["a"][1], v["b"][1]
        la = [r for r in ra if isinstance(r, tuple) and r[0] == "lookup"]
        lb = [r for r in rb if isinstance(r, tuple) and r[0] == "lookup"]
        if la and lb:
            pa = set(p[0] for p in (la[0][1] or ()))
            pb = set(p[0] for p in (lb[0][1] or ()))
            if pa == {"before"} and pb == {"after"}:
                ok = True
    R.ob("R18.3", "filter | a per-dependency record between two present jobs is kept iff the edge (first id, second id) exists", ok,
         detail="no edge_weight(lookup(first part), lookup(second part)) in the filter closure")
    # run the closure with forced lookup outcomes
    modes = {"both present": (1, 1), "first absent": (0, 1), "second absent": (1, 0), "both absent": (0, 0)}
    helper = [n for n in A.facts.order if n.startswith(nh.name + "::{closure") and n != fcl]
    for mname, (ha, hb) in modes.items():
        r = run_filter_mode(A, nh, fcl, ha, hb)
        rv = r["ret"]
        consulted = r["parts_get"]
        edge = r["edge"]
        if ha and hb:
            R.ob("R18.3", "filter | both endpoints present | decided by the edge alone", edge and not consulted and rv == {0, 1},
                 detail="edge test %s, superseded filter consulted %s, possible results %s" % (edge, consulted, sorted(rv)))
        else:
            R.ob("R18.5", "filter | %s | decided by the superseded-multi-output filter (record of an absent job is otherwise kept)" % mname,
                 consulted and not edge and 1 in rv,
                 detail="superseded filter consulted %s, edge test %s, possible results %s" % (consulted, edge, sorted(rv)))
    # ... and that filter drops the record whenever one of the recorded job's outputs is registered for a present job of another
    # name -- whatever the id looks like (forced: every lookup in the output->job map hits a different job)
    for mname, (ha, hb) in list(modes.items()) + [("own record / input-name list", (None, None))]:
        if ha and hb:
            continue
        r = run_filter_mode(A, nh, fcl, ha, hb, superseded=True)
        if ha is None:
            # every key class at once (own records, input-name lists, per-dependency records): with, in addition, no dependency
            # left between present jobs, nothing may be kept -- a remaining 'keep' is unconditional for some key shape
            r = run_filter_mode(A, nh, fcl, ha, hb, superseded="no-edge")
            R.ob("R18.5", "filter | any key, superseded and without a current dependency | no record is kept unconditionally",
                 r["ret"] == {0}, detail="possible results %s (1 = keep): some key shape bypasses both tests" % sorted(r["ret"]))
            continue
        R.ob("R18.5", "filter | %s, an output of the recorded job now belongs to a present job of another name | the record is dropped" % mname,
             r["ret"] == {0}, detail="possible results %s (1 = keep): a record of a superseded job can survive for some id" % sorted(r["ret"]))
    # own records of a present job that was not renamed are kept, whatever they contain: the filter decides by keys, not by values
    # (a never-started job keeps its records unchanged; a stale input-name list is the evidence that its inputs changed)
    rule_filter_keeps_own(A, R, "R18.5", fcl)
    # own records (no separator / empty second part) also go through the superseded filter
    r = run_filter_mode(A, nh, fcl, None, None)
    R.ob("R18.5", "filter | every key class can reach the superseded filter", r["parts_get"])
    # R18.4 liveness of the superseded filter: shape of lookup keys vs. shape of stored keys ------------------
    parts_ins = [v for v in nhrun.by_kind("map_op") if v["op"] == "insert" and v["target"][0] == "local"
                 and not ("history_filtered" in v["target"][2] or "history_clone" in v["target"][2])]
    parts_get = [v for k, v in nhrun.facts.items() if k[0] == "map_op" and v["op"] == "get" and v["target"][0] == "local"
                 and not ("history_filtered" in v["target"][2] or "history_clone" in v["target"][2])]
    R.floor("R18.4", "insertions into the output->job map", len(parts_ins), 1)
    R.floor("R18.4", "lookups in the output->job map", len(parts_get), 1)
    stored_shapes = set()
    for v in parts_ins:
        k = v["key"]
        stored_shapes |= set(k[2]) if k[0] == "str" else set()
    for v in parts_get:
        k = v["key"]
        sh = set(k[2]) if k[0] == "str" else set()
        contra = [(pat, val) for (pat, val) in sh if (pat, not val) in stored_shapes and all(
            (pat, not val) in (set(i["key"][2]) if i["key"][0] == "str" else set()) for i in parts_ins)]
        R.ob("R18.4", "%s | a lookup in the output->job map can hit (key shape compatible with the stored keys)" % short(v["fn"]),
             not contra, detail="lookup key is known to contain %r while no stored key does: the superseded filter is dead" % (contra[0][0] if contra else ""),
             site=A.site(v))
    # every present job registers all its outputs: each iteration of the filling loop inserts
    if parts_ins:
        v = parts_ins[0]
        heads = set()
        for pi in parts_ins:
            k = pi["key"]
            for p in (k[1] if k[0] == "str" else ()):
                sy = None
                if p[0] == "jobid":
                    sy = p[1]
                elif p[0] == "piece":
                    for q in p[1]:
                        if q[0] == "jobid":
                            sy = q[1]
                if sy is not None and isinstance(sy, tuple) and sy[0] == "b":
                    heads.add((sy[1], sy[2]))
        body_nh = nh
        okall = len(heads) == 1
        why = "the loop that fills the map is not identified"
        if all(pi.get("collected") for pi in parts_ins):
            # built by one iterator chain over the jobs: every job contributes unless the chain filters
            okall = not any(pi.get("filtered") for pi in parts_ins)
            why = "the iterator chain that fills the map filters jobs out"
        elif okall:
            fidh, h = list(heads)[0]
            fnm = nhrun.frames.get(fidh)
            body_nh = A.facts.body(fnm[0]) if fnm else nh
            # positions of the insertions inside that activation
            parts_ins = [dict(pi, bb=(nhrun.pos_in(pi, fidh) or (None, pi["bb"]))[1]) for pi in parts_ins]
            sw = body_nh.term(h)["t"]
            loop = body_nh.natural_loop(h)
            blocks = set(pi["bb"] for pi in parts_ins)
            # inner loops (split) may execute zero times: take their headers as passing points too only if they contain an insert
            for s0 in [s_ for s_ in body_nh.succs(sw) if s_ in loop]:
                r_ = body_nh.reachable(s0, blocks)
                if h in r_:
                    # allow the path through an inner loop whose body inserts (split yields at least one piece)
                    inner_heads = [x for (_, x) in body_nh.back_edges() if x != h and x in loop]
                    r2 = body_nh.reachable(s0, blocks | set(inner_heads))
                    if h in r2:
                        okall = False
                        why = "a job can pass the filling loop without registering any output"
            if okall:
                # ... and the filling loop is not optional: no regular path through the function goes around it (a 'fast path' for
                # graphs without any multi-output job leaves the map empty, and an empty map supersedes nothing)
                from rules_more import residual_blocks, returns_of
                errs_ = error_exit_blocks(A, body_nh) | residual_blocks(body_nh)
                if set(returns_of(body_nh)) & body_nh.reachable(0, {h} | errs_):
                    okall = False
                    why = "the loop that fills the map can be skipped altogether: for such a graph no record is ever recognised as superseded"
        if okall:
            # the enumeration must be complete: the nodes of the graph are not, as soon as anything removes nodes from it
            # (jobs pruned at startup stay present jobs: they keep their id and records)
            removes = [n for n in A.facts.order for blk in A.facts.bodies[n].blocks
                       if blk["term"]["t"]["k"] == "call" and (M.callee_name(blk["term"]["t"]) or "").endswith("::remove_node")]
            for (fidh, h) in heads:
                for sy, (roles, _c) in nhrun.syms.items():
                    if isinstance(sy, tuple) and sy[:3] == ("b", fidh, h) and sym_filtered(sy):
                        okall = False
                        why = "the loop that fills the map runs over a filtered selection of the jobs: the others register no output"
                    if isinstance(sy, tuple) and sy[:3] == ("b", fidh, h) and "dagnodes" in roles and removes:
                        okall = False
                        why = ("the map is filled from the nodes of the graph, from which %s removes jobs that are still present "
                               "(their ids stay registered, their records are kept)" % short(removes[0]))
        R.ob("R18.4", "new_history | every present job registers its outputs in the output->job map", okall, detail=why, site=A.site(v))


def rule_filter_keeps_own(A, R, rule, fcl=None):
    """own records (output record, input-name list) of a present job that was not renamed pass the history filter whatever they
    contain: the filter decides by keys, never by values (C09: a never-started job keeps its records unchanged; a stale
    input-name list is the evidence that its inputs changed)"""
    nh = A.evaluator_fn("new_history")
    if fcl is None:
        hf = history_filter(A, nh_run(A, "joined", "none"))
        fcl = hf["closure"] if hf else None
    R.ob(rule, "new_history | the history filter closure is identified", fcl is not None)
    if fcl is None:
        return
    for shape, what in (("plain", "output record"), ("suffix", "input-name list")):
        rv_ = run_filter_own(A, nh, fcl, shape)
        R.ob(rule, "filter | %s of a present job that was not renamed | kept whatever its value" % what, rv_ == {1},
             detail="possible results %s (1 = keep): the record of a present job can be dropped by the filter depending on its content"
                    % sorted(rv_))


def run_filter_own(A, nh, fcl, shape):
    """analyse the filter closure for an own record of a present, not renamed job: key shape forced to 'plain' (no separator) or
    'suffix' (separator, nothing behind it), every id lookup hits, every lookup in the output->job map finds the job itself.
    -> set of possible results (1 = keep)"""
    from interp import Interp, Config, State
    from domain import ref, string, adt, TRUE, FALSE
    import models
    OPTION = "std::option::Option"
    body = A.facts.body(fcl)
    I = Interp(A.facts, A.uni, A.layout, Config(label="FILTOWN"))
    I.models = dict(I.models)
    orig_get = I.models["std::collections::HashMap::<K, V, S, A>::get"]

    def get_model(I_, state, frame, bi, t, args, span):
        res = orig_get(I_, state, frame, bi, t, args, span)
        out = []
        local = models.self_field_of(I_, args[0]) is None
        for (rv, st) in res:
            if local:
                out.append((adt(OPTION, {1: (string([("partsval",)]),)}), st))      # the map names this very job
            elif rv[0] == "adt" and 1 in dict(rv[2]):
                out.append((adt(rv[1], {1: dict(rv[2])[1]}), st))
            else:
                out.append((rv, st))
        return out
    I.models["std::collections::HashMap::<K, V, S, A>::get"] = get_model
    I.models["std::collections::HashMap::<K, V, S, A>::contains_key"] = lambda I_, st_, fr_, bi_, t_, a_, sp_: [(TRUE, st_)]
    for nm_, val_ in (("std::cmp::PartialEq::eq", TRUE), ("std::cmp::PartialEq::ne", FALSE),
                      ("core::str::traits::<impl std::cmp::PartialEq for str>::eq", TRUE)):
        orig_eq = I.models[nm_]

        def eqm(I_, st_, fr_, bi_, t_, a_, sp_, _o=orig_eq, _v=val_):
            svs = [models.str_of(I_, st_, x) for x in a_[:2]]
            for sv in svs:
                if sv is not None and any(p_[0] == "partsval" for p_ in sv[1]):
                    return [(_v, st_)]
            if all(sv is not None and sv[1] for sv in svs):
                # the part behind the separator compared with the empty literal (`Some((id, ""))`) is an emptiness test
                for (x_, y_) in ((svs[0], svs[1]), (svs[1], svs[0])):
                    if all(p_[0] == "after" for p_ in x_[1]) and all(p_[0] == "const" and p_[1] == "" for p_ in y_[1]):
                        return [(_v, st_)]
            return _o(I_, st_, fr_, bi_, t_, a_, sp_)
        I.models[nm_] = eqm
    has_sep = shape == "suffix"
    I.models["core::str::<impl str>::contains"] = lambda I_, st_, fr_, bi_, t_, a_, sp_: [(TRUE if has_sep else FALSE, st_)]
    orig_so = I.models["core::str::<impl str>::split_once"]

    def so(I_, st_, fr_, bi_, t_, a_, sp_):
        res = orig_so(I_, st_, fr_, bi_, t_, a_, sp_)
        out = []
        for (rv, st) in res:
            vs = dict(rv[2]) if rv[0] == "adt" else {}
            if has_sep and 1 in vs:
                out.append((adt(rv[1], {1: vs[1]}), st))
            elif not has_sep:
                out.append((adt(OPTION, {0: ()}), st))
        return out or res
    I.models["core::str::<impl str>::split_once"] = so
    for nm_ in ("core::str::<impl str>::is_empty", "std::string::String::is_empty"):
        orig_ie = I.models[nm_]

        def ie(I_, st_, fr_, bi_, t_, a_, sp_, _o=orig_ie):
            s_ = models.str_of(I_, st_, a_[0])
            if s_ is not None and s_[1] and all(p_[0] == "after" for p_ in s_[1]):
                return [(TRUE, st_)]
            return _o(I_, st_, fr_, bi_, t_, a_, sp_)
        I.models[nm_] = ie
    pair = adt("tuple", {0: (string([("histkey",)]), string([("hist", frozenset([("anykey",)]))]))})
    st = State()
    st.heap[("cloarg",)] = pair
    args = {1: closure_env(A, I, body, st), 2: ref(("cloarg",), ())}
    if body.arg_count == 3:
        args = {1: args[1], 2: string([("histkey",)]), 3: string([("hist", frozenset([("anykey",)]))])}
    elif body.locals[2].get("s") == "&str":
        args = {1: args[1], 2: string([("histkey",)])}      # a predicate over the key alone
    fr, out, col = I.analyze(body, args=args, state=st)
    if out is None:
        return set()
    r = out.locals.get((fr.fid, 0))
    if r is not None and r[0] == "fin":
        return set(c[0] for c in r[2])
    return {0, 1}


def run_filter_mode(A, nh, fcl, hit_a, hit_b, superseded=False):
    """analyse the filter closure alone with the two id lookups forced to hit (1) / miss (0) / free (None);
    superseded: every lookup in a local map (the output->job map) finds an entry, and that entry differs from what it is
    compared with (string equality answers 'different')"""
    from interp import Interp, Config, State
    from domain import ref, string, adt
    import models
    body = A.facts.body(fcl)
    I = Interp(A.facts, A.uni, A.layout, Config(label="FILT"))
    forced = {"n": 0, "plan": [hit_a, hit_b]}
    orig = I.models["std::collections::HashMap::<K, V, S, A>::get"]

    def get_model(I_, state, frame, bi, t, args, span):
        res = orig(I_, state, frame, bi, t, args, span)
        a = args[0]
        if superseded and models.self_field_of(I_, a) is None:
            out = []
            for (rv, st) in res:
                if rv[0] == "adt" and 1 in dict(rv[2]):
                    out.append((adt(rv[1], {1: dict(rv[2])[1]}), st))
                elif rv[0] == "adt":
                    out.append((adt(rv[1], {1: (string([("other-job",)]),)}), st))
                else:
                    out.append((rv, st))
            return out
        if models.self_field_of(I_, a) == A.L.idmap_field and frame.body.name == fcl:
            lookups.append(bi)
            lookup_toks.add((bi, getattr(I_, "cur_token", None)))
            k = models.deref(I_, state, args[1])
            part = None
            if k[0] == "str":
                kinds_ = set(p[0] for p in k[1])
                part = 0 if kinds_ == {"before"} else (1 if kinds_ == {"after"} else None)
            want = forced["plan"][part] if part is not None else None
            if want is not None:
                out = []
                for (rv, st) in res:
                    if rv[0] == "adt":
                        vs = dict(rv[2])
                        keep = {1: vs[1]} if (want and 1 in vs) else ({0: vs[0]} if (not want and 0 in vs) else vs)
                        out.append((adt(rv[1], keep), st))
                    else:
                        out.append((rv, st))
                return out
        return res
    I.models = dict(I.models)
    I.models["std::collections::HashMap::<K, V, S, A>::get"] = get_model
    if hit_a is not None:
        # the per-dependency key class: the part behind the separator is a job id, i.e. not empty
        from domain import FALSE as _F
        for nm in ("core::str::<impl str>::is_empty", "std::string::String::is_empty"):
            orig_ie = I.models[nm]

            def ie(I_, st_, fr_, bi_, t_, a_, sp_, _o=orig_ie):
                s_ = models.str_of(I_, st_, a_[0])
                if s_ is not None and s_[1] and all(p_[0] == "after" for p_ in s_[1]):
                    return [(_F, st_)]
                return _o(I_, st_, fr_, bi_, t_, a_, sp_)
            I.models[nm] = ie
    if superseded:
        from domain import TRUE, FALSE
        I.models["std::cmp::PartialEq::eq"] = lambda I_, st_, fr_, bi_, t_, a_, sp_: [(FALSE, st_)]
        I.models["std::cmp::PartialEq::ne"] = lambda I_, st_, fr_, bi_, t_, a_, sp_: [(TRUE, st_)]
        ck = "std::collections::HashMap::<K, V, S, A>::contains_key"
        I.models[ck] = lambda I_, st_, fr_, bi_, t_, a_, sp_: [(TRUE, st_)]
    if superseded == "no-edge":
        # ... and no dependency exists between two present jobs
        ew = "petgraph::graphmap::GraphMap::<N, E, Ty>::edge_weight"
        orig_ew = I.models[ew]

        def ew_model(I_, st_, fr_, bi_, t_, a_, sp_):
            orig_ew(I_, st_, fr_, bi_, t_, a_, sp_)
            return [(adt("std::option::Option", {0: ()}), st_)]
        I.models[ew] = ew_model
        I.models["petgraph::graphmap::GraphMap::<N, E, Ty>::contains_edge"] = lambda I_, st_, fr_, bi_, t_, a_, sp_: [(FALSE, st_)]
    lookups = []
    lookup_toks = set()
    # the closure's environment: captured references are unknown; its argument is a (&String, &String) pair
    pair = adt("tuple", {0: (string([("histkey",)]), string([("hist", frozenset([("anykey",)]))]))})
    st = State()
    st.heap[("cloarg",)] = pair
    # environment: give the captures their evaluator locations by type
    env_fields = []
    cap_ty = body.locals[1]
    args = {1: closure_env(A, I, body, st), 2: ref(("cloarg",), ())}
    if body.arg_count == 3:
        # `retain(|key, value| ..)`: key and value are separate arguments
        args = {1: args[1], 2: string([("histkey",)]), 3: string([("hist", frozenset([("anykey",)]))])}
    elif body.locals[2].get("s") == "&str":
        args = {1: args[1], 2: string([("histkey",)])}      # a predicate over the key alone
    fr, out, col = I.analyze(body, args=args, state=st)
    rv = set()
    if out is not None:
        r = out.locals.get((fr.fid, 0))
        if r is not None and r[0] == "fin":
            rv = set(c[0] for c in r[2])
        else:
            rv = {0, 1}
    # only what happens on the paths behind the id lookups belongs to the per-dependency key class
    region = None
    if hit_a is not None and lookups:
        # per path partition (token) of the abstract run: what lies behind the lookup that is executed last
        region = set()
        toks = set(tk for (_b, tk) in lookup_toks)
        for tk in toks:
            es = set((a_, b_) for (a_, b_, t_) in getattr(I, "edges_tok", {}).get(fr.fid, set()) if t_ == tk)
            succ = {}
            for (a_, b_) in es:
                succ.setdefault(a_, []).append(b_)
            starts = set(b_ for (b_, t_) in lookup_toks if t_ == tk)
            last = [b_ for b_ in starts if not any(b_ != o and o in reach_from(succ, b_) for o in starts)] or list(starts)
            for b_ in last:
                region |= reach_from(succ, b_)

    def in_region(v):
        if region is None:
            return True
        idx = dict(((nm[0], tuple(nm[1])), f) for f, nm in I.frame_names.items())
        ch = list(v.get("stack") or ()) + [(v["fn"], v["bb"])]
        for i_, (fn_, bb_) in enumerate(ch):
            if idx.get((fn_, tuple(ch[:i_]))) == fr.fid:
                return bb_ in region
        return False
    parts_get = any(k[0] == "map_op" and v["op"] == "get" and v["target"][0] != "self" and in_region(v) for k, v in I.rec.facts.items()) or \
        any(k[0] == "call" and "{closure" in v["callee"] and v["callee"] != fcl and in_region(v) for k, v in I.rec.facts.items())
    edge = any(k[0] == "edge_weight" and in_region(v) for k, v in I.rec.facts.items())
    return dict(ret=rv, parts_get=parts_get, edge=edge, notes=I.rec.notes)


def reach_from(succ, start):
    seen, st = set(), [start]
    while st:
        x = st.pop()
        if x in seen:
            continue
        seen.add(x)
        st.extend(succ.get(x, ()))
    return seen


def closure_env(A, I, body, st):
    """a closure environment whose captured `&self` points at the evaluator; captured helper closures get their own environment
    (recursively: a named predicate closure may itself call the renamed-job helper), a helper's remaining captures are the parts
    map, the filter closure's own remaining captures are opaque"""
    from domain import ref, adt, TOP
    st.heap[("partsmap",)] = ("coll", TOP, TOP, frozenset(["parts"]))

    def build(name, depth):
        # find the closure aggregate in the owner to learn the capture order
        owner = name.rsplit("::{closure", 1)[0]
        ob = A.facts.body(owner)
        caps = None
        for blk in ob.blocks:
            for s_ in blk["stmts"]:
                if s_["k"] == "assign" and s_["r"]["k"] == "agg" and s_["r"]["kind"].get("closure") == name:
                    caps = s_["r"]["fields"]
        if caps is None and depth > 0:
            return (ref(("partsmap",), ()),)
        fields = []
        for f in (caps or []):
            p = f.get("copy") or f.get("move")
            ty = ob.locals[p["l"]] if (p is not None and not p["p"]) else None
            if ty is not None and "ref" in ty and ty["ref"].get("adt") == A.L.evaluator:
                fields.append(ref(("self",), ()))
            elif ty is not None and "ref" in ty and "ref" in ty["ref"] and ty["ref"]["ref"].get("adt") == A.L.evaluator:
                st.heap[("selfref",)] = ref(("self",), ())
                fields.append(ref(("selfref",), ()))
            elif ty is not None and "ref" in ty and "closure" in ty["ref"] and depth < 4:
                helper = ty["ref"]["closure"]
                hk = ("helperenv", helper)
                st.heap[hk] = adt("closure:" + helper, {0: build(helper, depth + 1)})
                fields.append(ref(hk, ()))
            elif depth > 0:
                fields.append(ref(("partsmap",), ()))
            else:
                fields.append(TOP)
        return tuple(fields)
    st.heap[("cloenv0",)] = adt("closure:" + body.name, {0: build(body.name, 0)})
    return ref(("cloenv0",), ())


# =============================================================================================
# R12.p: startup pruning reaches its fixpoint (an Ephemeral nobody can need must not make its upstreams run each time)

def has_neighbour_predicates(A):
    """local bool functions that answer 'does this job have a neighbour?': true iff the first iterator step yields"""
    from protocol import forced_analysis
    out = set()

    def forced_next(some):
        def f(I, state, frame, bi, t, args, span):
            import models
            res = models.next_common(I, state, frame, bi, t, args, span)
            keep = []
            for (rv, st) in res:
                if rv[0] == "adt":
                    vs = dict(rv[2])
                    if some and 1 in vs:
                        keep.append((rv, st))
                    if not some and 0 in vs:
                        keep.append((rv, st))
            return keep
        return f
    for b in A.evaluator_methods():
        if b.locals[0]["s"] != "bool" or b.vis == "Public" or len(b.blocks) > 12:
            continue
        rs = []
        for some in (True, False):
            try:
                I, fr, out_, col = forced_analysis(A, b, {"std::iter::Iterator::next": forced_next(some)})
            except Exception:
                rs = None
                break
            rv = out_.locals.get((fr.fid, 0)) if out_ is not None else None
            rs.append(set(c[0] for c in rv[2]) if (rv is not None and rv[0] == "fin") else None)
        if rs == [{1}, {0}]:
            out.add(b.name)
    return out


def rule_prune_fixpoint(A, R, rule):
    from protocol import forced_analysis
    from interp import State
    from domain import ref, TRUE
    C = A.classes()
    cleanup_kinds = set(A.kind_of(s) for s in C["CleanupOffered"])
    prune_fns = set()
    prune_pos = {}
    for st in A.startup_runs():
        for v in st.by_kind("dag_remove_node"):
            # the pruning function: the innermost activation around the removal in which it lies inside a loop (the removal
            # itself may have been extracted into a helper)
            chosen = None
            for (fid_, fn_, bb_) in reversed(st.chain(v)):
                b_ = A.facts.body(fn_)
                if b_ is not None and fid_ is not None and any(bb_ in b_.natural_loop(h_) for (_x, h_) in b_.back_edges()):
                    chosen = (fid_, fn_, bb_)
                    break
            if chosen is None:
                chosen = (v.get("fid"), v["fn"], v["bb"])
            prune_fns.add(chosen[1])
            prune_pos[(id(st), v["fn"], v["bb"])] = chosen
    R.floor(rule, "startup functions that take jobs out of the graph", len(prune_fns), 1)
    hn = has_neighbour_predicates(A)
    R.info["has_neighbour_predicates"] = sorted(short(x) for x in hn)
    overrides = dict((n, (lambda I_, st_, fr_, bi_, t_, a_, sp_: [(TRUE, st_)])) for n in hn)
    init = dict((A.kind_of(s), s) for s in C["Init"])
    for fn in sorted(prune_fns):
        closures = A.facts.closures_of(fn)
        good = []
        for cb in closures:
            if cb.arg_count != 2 or cb.locals[0]["s"] != "bool":
                continue
            res = {}
            res_plain = {}
            for ek in sorted(init):
                for dk in sorted(cleanup_kinds):
                    st = State()
                    env = closure_env(A, None, cb, st)
                    sym = ("cand", cb.name)
                    from domain import key as mkkey
                    st.heap[("candarg",)] = mkkey(sym, ["cand"])
                    cfgd = dict(label="PRUNE", cell_init={"cand": fin(A.L.jobstate, [init[ek]]),
                                                          "nbr:Outgoing:cand": fin(A.L.jobstate, [init[dk]])},
                                default_states=fin(A.L.jobstate, C["Init"]))
                    try:
                        def prep(I_, sym=sym):
                            I_.sym_info[sym] = (frozenset(["cand"]), None)
                        I, fr, out_, col = forced_analysis(A, cb, overrides, cfgd=cfgd, args={1: env, 2: ref(("candarg",), ())}, state=st,
                                                           prepare=prep)
                    except Exception:
                        res = None
                        break
                    rv = out_.locals.get((fr.fid, 0)) if out_ is not None else None
                    res[(ek, dk)] = set(c[0] for c in rv[2]) if (rv is not None and rv[0] == "fin") else {0, 1}
                    # the same without assuming anything about the neighbourhood: is the job kind what decides?
                    st2 = State()
                    env2 = closure_env(A, None, cb, st2)
                    st2.heap[("candarg",)] = mkkey(sym, ["cand"])
                    try:
                        I2, fr2, out2, col2 = forced_analysis(A, cb, {}, cfgd=cfgd, args={1: env2, 2: ref(("candarg",), ())}, state=st2, prepare=prep)
                        rv2 = out2.locals.get((fr2.fid, 0)) if out2 is not None else None
                        res_plain[(ek, dk)] = set(c[0] for c in rv2[2]) if (rv2 is not None and rv2[0] == "fin") else {0, 1}
                    except Exception:
                        res_plain[(ek, dk)] = {0, 1}
                if res is None:
                    break
            if res is None:
                continue
            rejects_others = all(res_plain[(ek, dk)] == {0} for (ek, dk) in res_plain if ek not in cleanup_kinds)
            accepts_chain = all(1 in res[(ek, dk)] for (ek, dk) in res if ek in cleanup_kinds)
            if rejects_others:
                good.append((cb.name, accepts_chain))
        if not good:
            # explicit-loop form: which jobs of the graph can enter a local collection, per kind of the job and of its downstreams
            fb = A.facts.body(fn)

            def enters(ov, ek, dk):
                cfgd = dict(label="PRUNEL", cell_init={"dagnodes": fin(A.L.jobstate, [init[ek]]),
                                                        "nbr:Outgoing:dagnodes": fin(A.L.jobstate, [init[dk]])},
                            default_states=fin(A.L.jobstate, C["Init"]))
                I_, fr_, out_, col_ = forced_analysis(A, fb, ov, cfgd=cfgd)
                hit = False
                for k_, v_ in I_.rec.facts.items():
                    if k_[0] == "set_op" and v_["op"] == "insert" and v_["target"][0] == "local" and v_["elem"][0] == "key" \
                            and "dagnodes" in v_["elem"][2]:
                        hit = True
                    if k_[0] == "push_local" and "dagnodes" in v_["key"][1]:
                        hit = True
                return hit
            try:
                rej = all(not enters({}, ek, dk) for ek in sorted(init) if ek not in cleanup_kinds for dk in sorted(cleanup_kinds))
                acc = all(enters(overrides, ek, dk) for ek in sorted(init) if ek in cleanup_kinds for dk in sorted(cleanup_kinds))
                if rej:
                    good.append((fn + " (candidate loop)", acc))
            except Exception as e:  # pragma: no cover
                R.info["prune_loop_form_error"] = repr(e)
        R.ob(rule, "%s | the pruning candidates are selected by a predicate on the job kind" % short(fn), bool(good),
             detail="no filter closure that rejects every job that is not of the cleanup (Ephemeral) kind")
        for (cn, acc) in good:
            R.ob(rule, "%s | an Ephemeral whose direct downstreams are all Ephemerals is a pruning candidate" % short(fn), acc,
                 detail="the candidate predicate rejects an Ephemeral that has (only Ephemeral) downstreams: a dangling chain of Ephemerals "
                        "is then only pruned at its end and its inner members are re-evaluated on every start")
    # the pruning is iterated to its fixpoint: removing a leaf turns its upstream into a leaf
    hnames = set(hn)
    for st in A.startup_runs()[:1]:
        rms = st.by_kind("dag_remove_node")
        for rm in rms:
            fidr, fnr_, bbr = prune_pos.get((id(st), rm["fn"], rm["bb"]), (rm.get("fid"), rm["fn"], rm["bb"]))
            body = A.facts.body(fnr_)
            if body is None:
                continue
            heads = [h for h in set(h for (_, h) in body.back_edges()) if bbr in body.natural_loop(h)]
            # (a) some loop around the removal re-evaluates a 'has this job a neighbour' test (fixpoint iteration, not a single pass)
            retest = False
            for c in st.by_kind("call"):
                if c["callee"] in hnames or c["callee"].endswith("::neighbors_directed"):
                    pos = st.pos_in(c, fidr)
                    if pos is not None and any(pos[1] in body.natural_loop(h) for h in heads):
                        retest = True
            R.ob(rule, "%s | the removal of leaf Ephemerals is iterated: a loop around it re-examines who has become a leaf" % short(body.name),
                 bool(heads) and retest, detail="single pass: an Ephemeral that becomes a leaf only after its downstream was pruned stays in the graph, "
                                               "never runs, never gets a record and makes its upstreams run on every evaluation", site=A.site(rm))
            # (b) nothing is asked about a job's neighbours after the job was taken out of the graph (the answer is always 'none')
            late = []
            for nb in st.by_kind("neighbors"):
                if nb["key"][0] is None or nb["key"][0] != rm["key"][0]:
                    continue
                com = st.common(rm, nb)
                if com is None:
                    continue
                fidc, fnc, b_rm, b_nb = com
                cb = A.facts.body(fnc)
                from rules_protocol import key_binding
                kb = key_binding(rm)
                stop = {kb[1]} if (kb is not None and kb[0] == fidc) else set()
                if b_nb != b_rm and b_nb in cb.reachable(b_rm, stop - {b_rm}):
                    late.append(nb)
                elif b_nb == b_rm and fidc != rm.get("fid") and False:
                    pass
            R.ob(rule, "%s | the neighbours of a pruned job are looked up before it is taken out of the graph, not after" % short(body.name),
                 not late, detail="a neighbour query on a job that was already removed from the graph yields nothing: the upstreams that "
                                  "became leaves are never found", site=A.site(late[0]) if late else "")


def rule_classify_after_pruning(A, R, rule):
    """the startup classification runs on the pruned graph: an Ephemeral nobody can need never runs, so it never has records of
    its own and would count as 'inputs changed' on every start (and pull in what it depends on)"""
    from rules_more import call_graph, pruning_order_violations, graph_removers
    g = call_graph(A)
    fns = set()
    for run in A.startup_runs():
        for kind in ("write_state", "write_edge"):
            for w in run.by_kind(kind):
                sym = w["key"][0] if kind == "write_state" else w["b"]
                roles = run.syms.get(sym, (frozenset(), None))[0] if sym is not None else frozenset()
                if isinstance(sym, tuple) and sym[0] == "b" and is_role((sym, roles), "topo"):
                    fr = run.frames.get(sym[1])
                    if fr:
                        fns.add(fr[0])
    fns -= graph_removers(A, g)
    R.floor(rule, "startup classification functions (loops over the topological order that write job states / dependency flags)", len(fns), 1)
    for fn in sorted(fns):
        bad = pruning_order_violations(A, g, fn, "the startup classification")
        R.ob(rule, "%s | the startup classification runs only after unconsumed Ephemerals were pruned" % short(fn), not bad,
             detail="; ".join(bad[:3]), site=A.facts.body(fn).span["s"] if A.facts.body(fn) else "")



def rule_edge_records_rewritten(A, R, rule):
    """with both endpoints ending with an output attached (executed, or validly skipped) the per-dependency record is written with
    the upstream's current output on every path of the edge loop's iteration"""
    r2 = nh_run(A, "edgea|some", "edge_a", None, histout=1, extra_roles={"edge_b": dict(state=None, histout=1, bools={})})
    ins = [v for v in out_ops(A, r2) if v["op"] == "insert" and classify_key(v["key"])[0] == "pair"]
    R.floor(rule, "per-dependency insert with both outputs present", len(ins), 1)
    for v in ins:
        o, why = must_in_iteration(A, r2, v)
        R.ob(rule, "new_history | upstream with an output, downstream ends with an output | the per-dependency record is rewritten on every path", o,
             detail=why + ": a dependency of a job that is up to date can end without a current record", site=A.site(v))
