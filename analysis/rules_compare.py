"""Comparison-flow rules (C15, C16, C03) and the composition rule set for C06."""
import mir as M
from domain import fin, adt, adt_variants, TOP, BOOL, BOOL_TOP, TRUE, FALSE, boolean
from interp import Imprecision
from protocol import forced_analysis
from rules_protocol import (short, effects, set_fields, event_kinds, sig_writes, is_role, role_str, elem_is_key, connected,
                            phase, tkey, EVENTS)
from rules_more import (prop, REGISTRY, kinds, error_exit_blocks, returns_of, forall_loop, reachable_without_running,
                        finishing_writes, nbr_parent, api_roots, call_graph, reachable_from)
from rules_history import (rule_started_failed_dropped, rule_failed_edges_untouched, rule_never_started_kept, classify_key, value_class, nh_run, out_ops, final_points, started_field, is_loop_key, may_have_output,
                           accepted_status)

RESULT = "std::result::Result"
OPTION = "std::option::Option"
STRAT = "PPGEvaluatorStrategy::"


def all_runs(A):
    """make sure the standard runs exist and return every run"""
    A.handler_runs()
    for e in EVENTS:
        A.event_runs(e)
    A.startup_runs()
    nh_run(A, "joined", "none")
    for b in A.evaluator_methods():
        if b.vis == "Public" and short(b.name) not in EVENTS and short(b.name) != "event_startup":
            A.joined_run(b)
    return list(A.runs.items())


def unwrap_str(av):
    """the string inside an Option<&String> / (&String,) wrapper, if any"""
    if av is None:
        return None
    if av[0] == "str":
        return av
    if av[0] == "adt" and av[1] in (OPTION, "tuple"):
        out = None
        for _v, fs in av[2]:
            for f in fs:
                s_ = unwrap_str(f)
                if s_ is not None:
                    out = s_ if out is None else ("str", out[1] | s_[1], out[2] & s_[2])
        return out
    return None


def is_record(vc):
    """value classes that denote an output record (recorded or current), as opposed to an input-name list"""
    out = []
    for p in vc:
        if p[0] == "histout" or p[0] == "param":
            out.append(p)
        elif p[0] == "hist" and p[1][0] in ("job", "pair", "other"):
            out.append(p)
    return out


def strategy_fn(A, name):
    return [b for n, b in A.facts.bodies.items() if n.endswith("as PPGEvaluatorStrategy>::" + name)]


def force_bool(val):
    def f(I, state, frame, bi, t, args, span):
        import models
        I.rec.put("strategy_call", I.sitekey(frame, bi, -1),
                  dict(fn=frame.body.name, bb=bi, span=span, method="forced", args=tuple(models.deref(I, state, a) for a in args[1:]),
                       stack=frame.stack, cells=I.cells(state), ghosts=()))
        return [(TRUE if val else FALSE, state)]
    return f


def rule_no_textual_record_compare(A, R, rule):
    runs = all_runs(A)
    # R15.1: no textual comparison of two output records anywhere ------------------------------------
    seen = set()
    ncmp = 0
    for (entry, label), run in runs:
        for v in run.by_kind("cmp"):
            k = (v["fn"], v["bb"])
            if k in seen:
                continue
            seen.add(k)
            a, b = unwrap_str(v["a"]), unwrap_str(v["b"])
            if a is None or b is None:
                continue
            ncmp += 1
            ra, rb = is_record(value_class(a)), is_record(value_class(b))
            R.ob(rule, "%s | string comparison is not between two output records" % short(v["fn"]), not (ra and rb),
                 detail="two output records (%s / %s) are compared textually instead of through the configured comparison"
                        % (sorted(map(str, ra))[:2], sorted(map(str, rb))[:2]), site=A.site(v))
    R.info["string_comparisons_seen"] = ncmp
    R.floor(rule, "string comparisons analysed (input-name lists, ids)", ncmp, 1)


def id_syms(av):
    if av is None or av[0] != "str":
        return None
    out = set()
    for p in av[1]:
        if p[0] == "jobid":
            out.add(p[1])
        else:
            return None
    return out or None


def rule_comparison_pair(A, R, rule):
    """the comparison is asked about the right pair: its first id names the job whose output records are compared, its second id
    the consumer of the per-dependency record (the configured comparison may depend on both)"""
    runs = all_runs(A)
    seen4 = set()
    site_bad = {}
    for (entry, label), run in runs:
        for v in run.by_kind("strategy_call"):
            if v["method"] != "is_history_altered" or len(v["args"]) < 4:
                continue
            # (the same site is seen in many partition runs, with operands of different precision: a site is judged by all of them)
            argsig = (v["fn"], v["bb"], tuple(str(a_) for a_ in v["args"][:4]))
            if argsig in seen4:
                continue
            seen4.add(argsig)
            ida, idb = id_syms(v["args"][0]), id_syms(v["args"][1])
            bad = []
            # the configured comparison may depend on both ids: each names a job of the current graph (the id of a job, or the id
            # the caller passed to look the job up; the second may be a fixed marker), never a name taken from the old history
            for which, a_, okk in (("first", v["args"][0], ("jobid", "param")), ("second", v["args"][1], ("jobid", "param", "const"))):
                if a_ is None or a_[0] != "str" or not a_[1] or any(p_[0] not in okk for p_ in a_[1]):
                    bad.append("the %s id is not (only) the id of a job of the current graph: %s"
                               % (which, sorted(set(p_[0] for p_ in a_[1])) if a_ is not None and a_[0] == "str" else a_))
            for which, rec in (("recorded", v["args"][2]), ("current", v["args"][3])):
                if rec is None or rec[0] != "str":
                    continue
                for p in rec[1]:
                    if p[0] == "histout":
                        if ida is not None and p[1] not in ida:
                            bad.append("%s value is the output of another job than the one named first" % which)
                    elif p[0] == "hist":
                        for q in p[1]:
                            if q[0] == "jobid":
                                if ida is not None and q[1] not in ida:
                                    bad.append("%s value is the record of another job than the one named first" % which)
                            elif q[0] == "fmt" and len(q[1]) == 3 and q[1][0] is None and q[1][2] is None:
                                sa, sb = id_syms(("str", q[2][0], frozenset())), id_syms(("str", q[2][1], frozenset()))
                                if ida is not None and sa is not None and sa != ida:
                                    bad.append("%s value is a per-dependency record of another upstream than the one named first" % which)
                                if idb is not None and sb is not None and sb != idb:
                                    bad.append("%s value is a per-dependency record into another job than the one named second" % which)
                                if ida is not None and idb is not None and sa is not None and sb is not None and sa == idb and sb == ida and sa != sb:
                                    bad.append("the two ids are passed in the wrong order")
                                a1_ = v["args"][1]
                                if a1_ is not None and a1_[0] == "str" and a1_[1] and all(p_[0] == "const" for p_ in a1_[1]):
                                    # the comparison may depend on who consumes the value (a consumer reads only part of it)
                                    bad.append("%s value is a per-dependency record, but the consumer is not named (a fixed marker is passed "
                                               "as second id)" % which)
            ent = site_bad.setdefault((v["fn"], v["bb"]), [v, set()])
            ent[1] |= set(bad)
    for (fn_, bb_), (v, bad) in sorted(site_bad.items()):
        R.ob(rule, "%s | the comparison is asked about the pair of jobs whose records it is given" % short(fn_), not bad,
             detail="; ".join(sorted(bad)[:3]), site=A.site(v))
    R.floor(rule, "call sites of the configured comparison with known operands", len(site_bad), 2)


def rule_failure_cancels_considers(A, R, rule):
    """a handler of a signal that handlers themselves send (so it runs in later rounds, with signals pending) which passes an
    upstream failure on to a direct downstream cancels the consider signals pending for that downstream: both the ones in the
    batch being drained (the ignore set) and the ones already emitted for the next round (selective removal from the local list)"""
    from rules_more import kinds
    K = kinds(A)
    H = A.handler_runs()
    internal = set()
    for (k, s), run in H.items():
        for v in run.by_kind("push_signal"):
            if v["container"] != "queue":
                internal |= set(v["kinds"])
    seen = {}
    for (k, s), run in H.items():
        if k not in internal:
            continue      # a signal only events queue is alone in the first batch: nothing can be pending
        for v in run.by_kind("push_signal"):
            if v["container"] == "queue" or set(v["kinds"]) != {K["upfail"]} or nbr_parent(v["key"])[1] != "Outgoing":
                continue
            ign = [x for x in run.by_kind("set_op") if x["op"] == "insert" and x["target"][0] == "local" and x["elem"][0] == "key"
                   and x["elem"][1] == v["key"][0] and connected(A, v, x)]
            ign += [x for x in run.by_kind("mark") if x["key"][0] == v["key"][0] and x["value"][0] == "fin"
                    and set(x["value"][2]) == {(1,)} and connected(A, v, x)]
            rem = [x for x in run.by_kind("retain") if (not x.get("keys") or v["key"][0] in x["keys"]) and connected(A, v, x)]
            kk = (v["fn"], v["bb"], k)
            ok = bool(ign) and bool(rem)
            why = []
            if not ign:
                why.append("the downstream is not entered into the set of jobs whose consider signals are to be ignored")
            if not rem:
                why.append("consider signals already emitted for the next round are not removed from the pending list")
            prev = seen.get(kk)
            seen[kk] = (ok and (prev[0] if prev else True), why or (prev[1] if prev else []), A.site(v), v["fn"])
    for (fn, bb, k), (ok, why, site, fn_) in sorted(seen.items()):
        R.ob(rule, "%s | %s handler passes the failure on to a direct downstream | consider signals pending for it are cancelled"
             % (short(fn_), A.kname(k)), ok, detail="; ".join(why), site=site)
    R.floor(rule, "sites that pass an upstream failure on in a later round", len(seen), 1)


def rule_strategy_asked_by_job_id(A, R, rule):
    """the strategy answers questions about jobs ('is the output there?'): every textual argument of such a question is the id of
    a job of the current graph as a whole (or the id the caller passed to look the job up) - not a piece of an id, nor a name
    taken from the recorded history (the strategy keys its answers by job id; a multi-output id is split by the strategy itself)"""
    n = 0
    seen = set()
    for (entry, label), run in all_runs(A):
        for v in run.by_kind("strategy_call"):
            if v["method"] == "is_history_altered" or (v["fn"], v["bb"]) in seen:
                continue
            strs = [a for a in v["args"] if a is not None and a[0] == "str"]
            if not strs:
                continue
            seen.add((v["fn"], v["bb"]))
            n += 1
            bad = [sorted(set(p_[0] for p_ in a[1])) for a in strs if not a[1] or any(p_[0] not in ("jobid", "param") for p_ in a[1])]
            R.ob(rule, "%s | strategy.%s is asked about a job by its whole id" % (short(v["fn"]), v["method"]), not bad,
                 detail="the argument is %s, not the id of a job of the current graph" % (bad[0] if bad else ""), site=A.site(v))
    R.floor(rule, "questions to the strategy that name a job", n, 1)


def dependency_checks(A):
    """functions that decide whether a dependency is invalidated: Result<bool> methods that call the configured comparison"""
    ei = [b for b in A.evaluator_methods() if b.locals[0]["s"].startswith("std::result::Result<bool")]
    cands = []
    for b in ei:
        calls = [blk for blk in b.blocks if blk["term"]["t"]["k"] == "call" and (M.callee_of(blk["term"]["t"]) or ("",))[0] == STRAT + "is_history_altered"]
        if calls:
            cands.append(b)
    return cands


def rule_shielding(A, R, rule):
    """'unaltered' never invalidates a dependency, 'altered' and 'no record' always do; the cached verdict reproduces the answer"""
    # R15.2 shielding: 'unaltered' never invalidates an edge -------------------------------------------
    ei = [b for b in A.evaluator_methods() if any(v for v in [1]) and b.locals[0]["s"].startswith("std::result::Result<bool")]
    cands = []
    for b in ei:
        calls = [blk for blk in b.blocks if blk["term"]["t"]["k"] == "call" and (M.callee_of(blk["term"]["t"]) or ("",))[0] == STRAT + "is_history_altered"]
        if calls:
            cands.append(b)
    R.floor(rule, "functions that decide whether a dependency is invalidated", len(cands), 1)
    req = A.L.edge_fields
    for b in cands:
        for forced in (False, True):
            I, fr, out, col = forced_analysis(A, b, {STRAT + "is_history_altered": force_bool(forced),
                                                     "std::collections::HashMap::<K, V, S, A>::get": force_hist_some(A)},
                                              cfgd=dict(label="EI"), state=edge_state(A, unknown=True))
            rv = out.locals.get((fr.fid, 0)) if out is not None else None
            oks = set()
            if rv is not None and rv[0] == "adt" and rv[1] == RESULT and 0 in adt_variants(rv):
                p = adt_variants(rv)[0][0]
                if p[0] == "fin":
                    oks = set(c[0] for c in p[2])
            consulted = any(k[0] == "strategy_call" for k in I.rec.facts)
            R.ob(rule, "%s | comparison says %s => the dependency is %s" % (short(b.name), "altered" if forced else "unaltered",
                                                                               "invalidated" if forced else "not invalidated"),
                 consulted and oks == ({1} if forced else {0}), detail="possible results: %s (consulted: %s)" % (sorted(oks), consulted))
            # the flag cached for this outcome reproduces it
            wrote = [v for k, v in I.rec.facts.items() if k[0] == "write_edge"]
            for w in wrote:
                val = w["value"]
                st2 = edge_state(A, unknown=False, proj=w["proj"], value=val)
                I2, fr2, out2, col2 = forced_analysis(A, b, {STRAT + "is_history_altered": force_bool(not forced)}, cfgd=dict(label="EI2"), state=st2)
                if any(k[0] == "strategy_call" for k in I2.rec.facts):
                    continue     # the comparison is asked again: this flag is not a cache of the verdict
                rv2 = out2.locals.get((fr2.fid, 0)) if out2 is not None else None
                oks2 = set()
                if rv2 is not None and rv2[0] == "adt" and 0 in adt_variants(rv2):
                    p = adt_variants(rv2)[0][0]
                    if p[0] == "fin":
                        oks2 = set(c[0] for c in p[2])
                R.ob(rule, "%s | the cached verdict for '%s' is answered the same way later" % (short(b.name), "altered" if forced else "unaltered"),
                     oks2 == ({1} if forced else {0}), detail="with the cached flag the result is %s" % sorted(oks2), site=A.site(w))
        # no record at all => invalidated
        I, fr, out, col = forced_analysis(A, b, {"std::collections::HashMap::<K, V, S, A>::get": force_hist_none(A, only_pairs=True),
                                                 "std::collections::HashMap::<K, V, S, A>::keys": empty_iter},
                                          cfgd=dict(label="EI3"), state=edge_state(A, unknown=True))
        rv = out.locals.get((fr.fid, 0)) if out is not None else None
        oks = set()
        if rv is not None and rv[0] == "adt" and 0 in adt_variants(rv):
            p = adt_variants(rv)[0][0]
            if p[0] == "fin":
                oks = set(c[0] for c in p[2])
        R.ob(rule, "%s | no record of the dependency => invalidated" % short(b.name), oks == {1}, detail="possible results: %s" % sorted(oks))


# =============================================================================================
@prop("C15")
def check_C15(A, R, tier):
    runs = all_runs(A)
    rule_no_textual_record_compare(A, R, "R15.1")
    # all comparisons of records go through the strategy: inventory
    seen = set()
    for (entry, label), run in runs:
        for v in run.by_kind("strategy_call"):
            if v["method"] == "is_history_altered":
                seen.add((v["fn"], v["bb"]))
    R.floor("R15.1", "call sites of the configured comparison", len(seen), 2)
    # strategy implementations may use equality only as a shortcut to 'unaltered'
    impls = strategy_fn(A, "is_history_altered")
    R.floor("R15.1", "implementations of the configured comparison", len(impls), 1)
    for b in impls:
        eqm = lambda I, state, frame, bi, t, args, span: [(TRUE, state)]
        nem = lambda I, state, frame, bi, t, args, span: [(FALSE, state)]
        I, fr, out, col = forced_analysis(A, b, {"std::cmp::PartialEq::eq": eqm, "std::cmp::PartialEq::ne": nem})
        rv = out.locals.get((fr.fid, 0)) if out is not None else None
        ok = rv is not None and rv[0] == "fin" and set(rv[2]) == {(0,)}
        uses = any(k[0] == "call" and v["generic"] in ("std::cmp::PartialEq::eq", "std::cmp::PartialEq::ne") for k, v in I.rec.facts.items())
        if uses:
            R.ob("R15.1", "%s | textual equality of the two records can only mean 'unaltered'" % short(b.name), ok,
                 detail="with equal records the implementation may still answer 'altered'")
    rule_shielding(A, R, "R15.2")
    cands = dependency_checks(A)
    rule_comparison_pair(A, R, "R15.4")
    # R15.6 (= R4.11): a record left under a former multi-output id is found whatever the ids look like - otherwise a textual
    # difference (the id) makes a consumer run although the comparison would have judged its input unaltered
    rule_rename_lookup_finds(A, R, "R15.6")
    # R15.5: the cached verdict of a dependency is written only for the dependency that was compared
    vfields = set()
    for b in cands:
        I, fr, out, col = forced_analysis(A, b, {STRAT + "is_history_altered": force_bool(True),
                                                 "std::collections::HashMap::<K, V, S, A>::get": force_hist_some(A)},
                                          cfgd=dict(label="EI5"), state=edge_state(A, unknown=True))
        for k, v in list(I.rec.facts.items()):
            if k[0] != "write_edge":
                continue
            # a cache of the verdict: with the flag set, the comparison is not asked again
            st2 = edge_state(A, unknown=False, proj=v["proj"], value=v["value"])
            I2, fr2, out2, col2 = forced_analysis(A, b, {STRAT + "is_history_altered": force_bool(False)}, cfgd=dict(label="EI6"), state=st2)
            if not any(k2[0] == "strategy_call" for k2 in I2.rec.facts):
                vfields.add(v["proj"])
    R.floor("R15.5", "edge field that caches the verdict of the dependency check", len(vfields), 1)
    seen5 = set()
    cand_names = set(c_.name for c_ in cands)
    for (entry, label), run in runs:
        ws5 = [v for v in run.by_kind("write_edge") if v["proj"] in vfields]
        if not ws5:
            continue
        scs = [sc for sc in run.by_kind("strategy_call") if sc["method"] == "is_history_altered"]
        for w in ws5:
            site = (w["fn"], w["bb"])
            if site in seen5:
                continue
            chain = run.chain(w)
            fids = set(c_[0] for c_ in chain if c_[0] is not None)
            asked = set()
            for sc in scs:
                if sc.get("fid") in fids:
                    ia, ib = id_syms(sc["args"][0]), id_syms(sc["args"][1])
                    if ia and ib and len(ia) == 1 and len(ib) == 1:
                        asked.add((list(ia)[0], list(ib)[0]))
            in_check = any(c_[1] in cand_names for c_ in chain)
            # the dependency check itself also writes the verdict for 'no record at all' without asking; everywhere else the
            # verdict must come from a comparison about exactly this dependency made in an enclosing activation
            ok = ((w["a"], w["b"]) in asked) or (in_check and not asked) or (in_check and (w["a"], w["b"]) in asked)
            if in_check and asked and (w["a"], w["b"]) not in asked:
                ok = False
            seen5.add(site)
            R.ob("R15.5", "%s | the verdict is cached only for the dependency that was compared" % short(w["fn"]), ok,
                 detail="the cached verdict of a dependency is written without the comparison having been asked about that dependency "
                        "(asked about %d other(s)): a verdict the comparison never gave decides whether its consumer is executed" % len(asked),
                 site=A.site(w))
    # R15.3: the changed-output error needs the comparison to say 'altered'
    n = 0
    for (entry, label), run in runs:
        for v in run.by_kind("error_construct"):
            if v["variant"] in ("APIError", "InternalError"):
                continue
            n += 1
            g = [(gk, val) for (gk, val) in v.get("ghosts", ()) if gk[0] == "strategy:is_history_altered"]
            R.ob("R15.3", "%s | %s is raised only after the configured comparison answered 'altered'" % (short(v["fn"]), v["variant"]),
                 any(val is not None and set(val) == {(1,)} for (gk, val) in g), detail="ghosts: %s" % g, site=A.site(v))
    R.floor("R15.3", "constructions of the changed-output error", n, 1)
    R.explanation = ("Every call of PartialEq on strings in every analysed run is classified by the provenance of its operands: no two "
                     "output records (recorded or current) may be compared textually; implementations of the comparison may use equality "
                     "only as a shortcut to 'unaltered'.  Shielding is decided by analysing the dependency check with the comparison "
                     "forced to each answer (and the cached flag re-read).  Order independence under such comparisons is not decided.")
    R.assume("order independence (C14) under equivalence-relation comparisons is not decided")


def empty_iter(I, state, frame, bi, t, args, span):
    return [(("iter", ("av", None)), state)]


def force_hist_some(A):
    import models
    orig = models.MODELS["std::collections::HashMap::<K, V, S, A>::get"]

    def f(I, state, frame, bi, t, args, span):
        res = orig(I, state, frame, bi, t, args, span)
        if models.self_field_of(I, args[0]) == A.L.history_field:
            return [(adt(rv[1], {1: dict(rv[2])[1]}) if (rv[0] == "adt" and 1 in dict(rv[2])) else rv, st) for (rv, st) in res]
        return res
    return f


def force_hist_none(A, only_pairs=False):
    """history lookups miss; only_pairs: only the per-dependency records are missing, a job's own records are there"""
    import models
    orig = models.MODELS["std::collections::HashMap::<K, V, S, A>::get"]

    def f(I, state, frame, bi, t, args, span):
        res = orig(I, state, frame, bi, t, args, span)
        if models.self_field_of(I, args[0]) == A.L.history_field:
            if only_pairs:
                k = models.str_of(I, state, args[1]) or models.deref(I, state, args[1])
                if classify_key(k)[0] != "pair":
                    return [(adt(rv[1], {1: dict(rv[2])[1]}) if (rv[0] == "adt" and 1 in dict(rv[2])) else rv, st) for (rv, st) in res]
            return [(adt(OPTION, {0: ()}), st) for (rv, st) in res]
        return res
    return f


def edge_state(A, unknown=True, proj=None, value=None):
    """initial abstract state for the stand-alone analysis of the dependency check: the edge between its two
    key parameters carries either the 'not yet decided' flags (as depends_on stores them) or a given cached value"""
    from interp import State
    from domain import av_set
    st = State()
    dep = A.evaluator_fn("depends_on")
    r = A.joined_run(dep)
    init = None
    # depends_on builds the initial EdgeInfo aggregate: take it from the add_edge call's argument if recorded, else Unknown-first
    L = A.L
    cell = None
    for v in r.by_kind("add_edge"):
        if v["weight"] is not None and v["weight"][0] == "adt" and v["weight"][1] == L.edgeinfo:
            cell = v["weight"]
    if cell is None:
        raise Imprecision("anchor: depends_on does not add an edge with a known initial weight")
    if not unknown and proj is not None:
        cell = av_set(cell, proj, value, A.uni)
    st.heap["__edge_default__"] = cell
    return st


def rule_startup_declares_edges(A, R, rule):
    from rules_more import residual_blocks
    init_cell = edge_state(A, unknown=True).heap["__edge_default__"]
    init_fields = adt_variants(init_cell)[0]
    n = 0
    for run in A.startup_runs():
        ws = []
        for w in run.by_kind("write_edge"):
            roles = run.syms.get(w["b"], (frozenset(), None))[0]
            if is_role((w["b"], roles), "topo") and isinstance(w["b"], tuple) and w["b"][0] == "b":
                # the binding that enumerates the topological order itself (the key may have passed through a local collection on
                # its way to the write: it remembers which binding it was)
                bsym = w["b"]
                if "topo" not in roles:
                    for r_ in roles:
                        if isinstance(r_, tuple) and r_[0] == "was" and isinstance(r_[1], tuple) and r_[1][0] == "b" \
                                and "topo" in run.syms.get(r_[1], (frozenset(), None))[0]:
                            bsym = r_[1]
                ws.append(dict(w, b=bsym))
        if not ws:
            continue
        loops = set((w["b"][1], w["b"][2]) for w in ws)
        for (fid, head) in sorted(loops):
            fnm = run.frames.get(fid)
            body = A.facts.body(fnm[0]) if fnm else None
            if body is None or len(body.natural_loop(head)) <= 1:
                continue
            mine = [w for w in ws if (w["b"][1], w["b"][2]) == (fid, head)]
            fields = set(w["proj"] for w in mine)
            for proj in sorted(fields):
                fi = proj[0][1] if proj and proj[0][0] == "f" else None
                undecided = init_fields[fi] if fi is not None and fi < len(init_fields) else None
                good = [w for w in mine if w["proj"] == proj and not (undecided is not None and undecided[0] == "fin" and w["value"][0] == "fin"
                                                                      and (set(w["value"][2]) & set(undecided[2])))]
                blocks = set()
                for w in good:
                    pos = run.pos_in(w, fid)
                    if pos is not None:
                        blocks.add(pos[1])
                errs = error_exit_blocks(A, body) | residual_blocks(body)
                sw = body.term(head)["t"]
                loop = body.natural_loop(head)
                ok = True
                for s0 in [s_ for s_ in body.succs(sw) if s_ in loop]:
                    if head in run.taken_reachable(fid, s0, blocks | errs):
                        ok = False
                n += 1
                R.ob(rule, "%s | %s | every visited job declares the flag %s of all its incoming dependencies (on every path)"
                     % (short(body.name), run.label.split("|")[-1], A.L.edge_fields[fi]["name"] if fi is not None else proj), ok,
                     detail="an iteration of the classification loop can complete without deciding the flag: an upstream visited later "
                            "finds it undecided and reports an internal error", site=A.site(mine[0]))
    R.floor(rule, "startup partitions x edge flags declared in the classification loop", n, 3)


# =============================================================================================
@prop("C16")
def check_C16(A, R, tier):
    C = A.classes()
    K = kinds(A)
    T = A.transitions()
    ev = A.event_runs("event_job_finished_success")
    # states written by the invalidating sites (startup) and their closure
    inv0 = set()
    for st in A.startup_runs():
        for w in st.by_kind("write_state"):
            inv0 |= set(w["to"]) - C["Finished"]
    H = A.handler_runs()
    # ... and the states written under an 'invalidated' verdict in the consider handler: those from which
    # the consider handler no longer consults the comparison
    closure = set(inv0)
    changed = True
    while changed:
        changed = False
        for t in T:
            w = t["w"]
            if w["frm"] & closure:
                new = set(w["to"]) - closure
                if new:
                    closure |= new
                    changed = True
    cleanup_kind = set(A.kind_of(s) for s in C["CleanupOffered"])
    running_inv = set(s for s in C["Running"] if s in closure)
    expected = set(s for s in C["Running"] if A.kind_of(s) in cleanup_kind and s not in running_inv and s in A.reach())
    R.info["validated_running_states"] = A.snames(expected)
    R.floor("R16.1", "running states of a validated Ephemeral", len(expected), 1)
    sites = set()
    for s in A.JS:
        if s not in A.reach():
            continue
        run = ev[s]
        errs = [v for v in run.by_kind("error_construct") if v["variant"] not in ("APIError", "InternalError")]
        for v in errs:
            sites.add((v["fn"], v["bb"]))
        if s in expected:
            R.ob("R16.2", "event_job_finished_success | %s | a changed output can be detected" % A.sname(s), len(errs) >= 1,
                 detail="no changed-output error is reachable for a validated Ephemeral")
            for v in errs:
                calls = [c for c in run.by_kind("strategy_call") if c["method"] == "is_history_altered"]
                okc = False
                for c in calls:
                    a = c["args"]
                    if len(a) >= 4:
                        rec, cur = value_class(a[2]), value_class(a[3])
                        if all(p[0] == "hist" and p[1][0] == "job" for p in rec) and all(p[0] == "param" for p in cur):
                            okc = True
                R.ob("R16.1", "event_job_finished_success | %s | the job's recorded output is compared with the reported one by the strategy" % A.sname(s),
                     okc, detail="no is_history_altered(recorded output of the job, reported output) on the path", site=A.site(v))
                g = [(gk, val) for (gk, val) in v.get("ghosts", ()) if gk[0] == "strategy:is_history_altered"]
                R.ob("R16.1", "event_job_finished_success | %s | raised only if the comparison answered 'altered'" % A.sname(s),
                     any(val is not None and set(val) == {(1,)} for (gk, val) in g), site=A.site(v))
                # R16.2: treated as failed, nothing recorded, error returned
                fpush = [p for p in run.by_kind("push_signal") if p["container"] == "queue" and set(p["kinds"]) == {K["failure"]}
                         and is_role(p["key"], "lookup")]
                okf = any(v["bb"] in run.taken_reachable(p["fid"], p["bb"]) or p["bb"] in run.taken_reachable(v["fid"], v["bb"]) for p in fpush)
                R.ob("R16.2", "event_job_finished_success | %s | the job is treated as failed (failure signal for the same job)" % A.sname(s), okf,
                     site=A.site(v))
                spush = [p for p in run.by_kind("push_signal") if p["container"] == "queue" and K["success"] in p["kinds"]]
                reach_after = run.taken_reachable(v["fid"], v["bb"])
                R.ob("R16.2", "event_job_finished_success | %s | after the error no success is signalled" % A.sname(s),
                     not any(p["bb"] in reach_after for p in spush), site=A.site(v))
                okp, errsv, div = A.ret_variants(run)
                R.ob("R16.2", "event_job_finished_success | %s | the error is returned to the driver" % A.sname(s),
                     errsv is not None and v["variant"] in errsv)
        else:
            R.ob("R16.1", "event_job_finished_success | %s | no changed-output error for a job that is not a validated Ephemeral" % A.sname(s),
                 not errs, detail="the error is reachable from state %s" % A.sname(s), site=A.site(errs[0]) if errs else "")
    R.ob("R16.1", "the changed-output error has exactly one construction site", len(sites) == 1, detail=str(sorted(sites)))
    # R16.6: detection does not depend on anything else: with the job's record present and the comparison answering 'altered' the
    # event ends in the error on every path (whatever the neighbours' states, flags or other fields are)
    evb = A.evaluator_fn("event_job_finished_success")
    for s in sorted(expected):
        I, fr, out, col = forced_analysis(A, evb, {STRAT + "is_history_altered": force_bool(True),
                                                   "std::collections::HashMap::<K, V, S, A>::get": force_hist_some(A)},
                                          cfgd=dict(label="C16F", opaque=list(A.signal_entry_names()),
                                                    cell_init={"lookup": fin(A.L.jobstate, [s])}))
        rv = out.locals.get((fr.fid, 0)) if out is not None else None
        vs = set(adt_variants(rv).keys()) if (rv is not None and rv[0] == "adt" and rv[1] == RESULT) else None
        consulted = any(k[0] == "strategy_call" for k in I.rec.facts)
        R.ob("R16.6", "event_job_finished_success | %s | record present, comparison says 'altered' => the call ends in the error on every path"
             % A.sname(s), consulted and vs == {1},
             detail="possible results %s (0 = Ok): some path accepts the report without asking the comparison" % (sorted(vs) if vs is not None else rv),
             site=evb.span["s"])
    # R16.3: the failure reaches the dependants (they become upstream-failed)
    from rules_more import rule_failure_propagation
    rule_failure_propagation(A, R, "R16.3", "R16.3")
    # R16.5: 'records nothing for it' (= R8.2): a started job that did not succeed loses both own records in new_history
    rule_started_failed_dropped(A, R, "R16.5")
    # R16.7 (= R8.1): an output is attached to a job only by its successful execution or by the skip that validated it: a job
    # that merely stopped being needed (pruned) must not look successful - new_history would refresh its input-name list, and the
    # next time it is needed it counts as 'inputs unchanged' and is held to an output it produced from other inputs
    from rules_history import rule_output_attached
    rule_output_attached(A, R, "R16.7")
    # R16.8 (= R7.7): every not-yet-started dependant - also one that was already skipped as up to date - ends upstream-failed
    from rules_more import rule_upstream_failure_reclassifies
    rule_upstream_failure_reclassifies(A, R, "R16.8")
    # R16.9 (= R3.1/R3.4): 'never for an Ephemeral whose inputs had changed' - a changed input-name list (or a missing own record)
    # marks the job invalidated at startup on every path, so that it runs without being held to its old output
    rule_startup_detectors(A, R, rename={"R3.1": "R16.9", "R3.4": "R16.9"})
    # R16.4: 'inputs unchanged' (the Validated tag under which the check is made) is only concluded through comparisons (= R3.3)
    rule_validation_verdict(A, R, "R16.4")
    # nowhere else
    for (entry, label), run in all_runs(A):
        if entry == A.evaluator_fn("event_job_finished_success").name:
            continue
        bad = [v for v in run.by_kind("error_construct") if v["variant"] not in ("APIError", "InternalError")]
        if bad:
            R.ob("R16.1", "%s | does not raise the changed-output error" % short(entry), False, site=A.site(bad[0]))
    R.explanation = ("Local clauses decided by trace-partitioned abstract interpretation of the success event: the changed-output error is "
                     "constructed at one site, reachable exactly from the running states of a validated Ephemeral (computed from the "
                     "transition relation: running states not reachable from the states written by the invalidating sites), only after "
                     "is_history_altered(recorded output of the job, reported output) answered 'altered'; on that path the failure signal "
                     "for the same job is queued, no success is signalled, nothing is recorded (C08 R8.1) and the error is returned.")
    R.assume("that a validated Ephemeral always has an own record to compare with rests on C03 R3.4")


# =============================================================================================
def skip_kind(A):
    """the signal kind whose handler finishes a never-started job without failure"""
    C = A.classes()
    K = kinds(A)
    H = A.handler_runs()
    ks = set()
    for (k, s), run in H.items():
        if k in (K["success"], K["failure"], K["abort"], K["upfail"], K["cleanup"], K["done"], K["consider"], K["ready"]):
            continue
        for w in run.by_kind("write_state"):
            if is_role(w["key"], "sigtarget") and set(w["to"]) & (C["Finished"] - C["FailedLike"]):
                ks.add(k)
    if len(ks) != 1:
        raise Imprecision("cannot identify the skip signal (%r)" % ks)
    return list(ks)[0]


def decided_states(A):
    """pending states from which the consider handler never (re)validates: no comparison is consulted"""
    C = A.classes()
    K = kinds(A)
    H = A.handler_runs()
    out = set()
    for s in A.JS:
        if s in C["Finished"] or s in C["Init"] or s in C["Ready"] or s in C["Running"] or s not in A.reach():
            continue
        run = H[(K["consider"], s)]
        consults = [v for v in run.by_kind("strategy_call")] + [v for v in run.by_kind("cmp")]
        if not consults:
            out.add(s)
    return out


def invalidated_states(A):
    """decided states that lead to an execution whose output is *not* checked against the record: the job is
    (re)built because something changed.  (A validated Ephemeral that runs is checked - C16.)"""
    C = A.classes()
    T = A.transitions()
    ev = A.event_runs("event_job_finished_success")
    checked = set(s for s in C["Running"] if any(v["variant"] not in ("APIError", "InternalError") for v in ev[s].by_kind("error_construct")))
    out = set()
    for s in decided_states(A):
        closure = {s}
        changed = True
        while changed:
            changed = False
            for t in T:
                w = t["w"]
                if w["frm"] & closure:
                    new = set(w["to"]) - closure
                    if new:
                        closure |= new
                        changed = True
        runs = closure & C["Running"]
        if runs and not (runs & checked):
            out.add(s)
    return out


def rule_no_skip_when_invalidated(A, R, rule):
    """An invalidated Ephemeral that has a consumer which is not an Ephemeral is never skipped, whatever state that consumer is in:
    a skipped job counts as up to date (its records and the per-dependency records into it are kept/refreshed) although it was
    never rebuilt.  (Only Ephemerals nobody can need - no consumer, or Ephemeral consumers only - may be left not up to date.)"""
    from interp import Interp, Config
    C = A.classes()
    K = kinds(A)
    sk = skip_kind(A)
    inv = invalidated_states(A)
    cleanup_kinds = set(A.kind_of(s) for s in C["CleanupOffered"])
    from rules_more import gate_functions
    gates = gate_functions(A)
    good_gates = [n_ for n_, g_ in gates.items() if g_["passing"] <= C["Finished"]]
    fns = [A.facts.body(n_) for n_ in sorted(consider_entry_fns(A, sk))]
    n = 0
    for cb in fns:
        for s in sorted(inv):
            if A.kind_of(s) not in cleanup_kinds:
                continue
            bad = []
            for d in sorted(A.reach()):
                if A.kind_of(d) in cleanup_kinds:
                    continue
                cfg = Config(label="NSI", cell_init={"param": fin(A.L.jobstate, [s]), "nbr:Outgoing:param": fin(A.L.jobstate, [d])})
                cfg.nonempty_nbrs = True
                I = Interp(A.facts, A.uni, A.layout, cfg)
                I.models = dict(I.models)
                for g_ in good_gates:
                    I.models[g_] = (lambda I_, st_, fr_, bi_, t_, a_, sp_: [(TRUE, st_)])
                fr, out, col = I.analyze(cb)
                skips = [x for k, x in I.rec.facts.items() if k[0] == "push_signal" and sk in x["kinds"] and is_role(x["key"], "param")]
                if skips:
                    bad.append(d)
            n += 1
            R.ob(rule, "consider logic | %s with a consumer that is not an Ephemeral | is never skipped" % A.sname(s), not bad,
                 detail="with the consumer in state %s the invalidated Ephemeral is skipped: it then counts as up to date and the records "
                        "of what it consumed are refreshed although it was not rebuilt" % A.snames(bad)[:3])
    R.floor(rule, "invalidated states of the cleanup kind", n, 1)


def rule_validation_verdict(A, R, rule):
    """the validation function never answers 'validated' past an undecided upstream, an invalidated dependency, or an upstream
    for which no comparison was consulted.  Returns (validation functions, verdict type)."""
    C = A.classes()
    sk = skip_kind(A)
    inv = invalidated_states(A)
    # R3.3: the validation verdict -------------------------------------------------------------------
    uvs = [b for b in A.evaluator_methods() if b.locals[0]["s"].startswith("std::result::Result<%s" % validation_ty(A))]
    R.floor(rule, "validation function", len(uvs), 1)
    vt = validation_ty(A)
    for b in uvs:
        g = call_graph(A)
        ei_names = set(n for n in reachable_from(g, [b.name]) if n != b.name and A.facts.body(n) is not None
                       and A.facts.body(n).locals[0]["s"].startswith("std::result::Result<bool")
                       and any(blk["term"]["t"]["k"] == "call" and (M.callee_of(blk["term"]["t"]) or ("",))[0] == STRAT + "is_history_altered"
                               for blk in A.facts.body(n).blocks))
        R.floor(rule, "dependency checks called by the validation function", len(ei_names), 1)

        validated = validated_verdict(A, sk)
        R.ob(rule, "the 'validated' verdict is identified", validated is not None)
        if validated is None:
            continue
        undecided = set(C["Init"]) | inv | set(C["Ready"]) | set(C["Running"])
        res = verdict_loop(A, b, ei_names, vt, validated)
        R.ob(rule, "%s | the loop over the upstreams and its accumulators are identified" % short(b.name), res is not None,
             detail="cannot find the single loop over the upstreams with its flags/counters")
        if res is None:
            continue
        for d in A.JS:
            if d not in A.reach():
                continue
            pt = res["pass"].get((d, True))
            pf = res["pass"].get((d, False))
            cons = res["consulted"].get(d, False)
            if cons:
                R.ob(rule, "%s | upstream in %s, dependency judged invalidated | the verdict cannot be 'validated'" % (short(b.name), A.sname(d)),
                     not pt, detail="an invalidated dependency leaves all accumulators of the verdict untouched")
            if d in undecided:
                R.ob(rule, "%s | upstream still %s | the verdict cannot be 'validated'" % (short(b.name), A.sname(d)), not pf and not pt,
                     detail="a job can be validated while an upstream is undecided / invalidated / not finished")
            elif d not in C["FailedLike"]:
                # any other upstream (finished without failure, or pending but decided - a validated Ephemeral that may never
                # run): it may leave the verdict 'validated' only if a comparison of what was consumed with what the upstream
                # has (or has on record) was consulted in this iteration and did not say 'altered'
                compared = res.get("compared", {}).get(d, False)
                R.ob(rule, "%s | upstream in %s | passes the verdict only through a comparison that says 'unaltered'" % (short(b.name), A.sname(d)),
                     not pt and (compared or not pf),
                     detail=("with the comparison answering 'altered' the iteration leaves the verdict untouched" if pt else
                             "the iteration leaves the verdict untouched without consulting any comparison: a job whose input changed "
                             "(e.g. in an interrupted run) is validated, skipped or run as 'validated'"))
        for name, ok in res["gate"]:
            R.ob(rule, "%s | 'validated' is answered only with %s" % (short(b.name), name), ok)
        low = sorted(res.get("lowered", ()), key=str)
        R.ob(rule, "%s | what an earlier upstream contributed to the verdict is never undone by a later one" % short(b.name), not low,
             detail="accumulator %s can return to its initial value in the iteration for an upstream in %s: whether a changed input "
                    "invalidates the job then depends on the order of the dependencies" % (low[0][0] if low else "", A.sname(low[0][1]) if low else ""))
        R.floor(rule, "upstream states for which the dependency check is consulted", sum(1 for v in res["consulted"].values() if v), 5)
    return uvs, vt


def rule_startup_detectors(A, R, rename=None):
    """the startup classification with a change detector's outcome forced (input-name list differs / no own record / result
    missing) marks the job invalidated on every path.  rename: {original rule id: rule id to report under}; ids not in it are not
    reported (used to share single detectors with other properties)"""
    from rules_more import loop_of_key
    C = A.classes()
    cleanup_kinds = set(A.kind_of(s) for s in C["CleanupOffered"])
    skippable = set()
    for s in C["Finished"] - C["FailedLike"]:
        if reachable_without_running(A, s) and s in A.reach():
            skippable.add(A.kind_of(s))
    inv = invalidated_states(A)

    def ROB(rule, *a, **k):
        if rename is None:
            R.ob(rule, *a, **k)
        elif rule in rename:
            R.ob(rename[rule], *a, **k)

    def RFLOOR(rule, *a, **k):
        if rename is None:
            R.floor(rule, *a, **k)
        elif rule in rename:
            R.floor(rename[rule], *a, **k)
    imnames = set()
    for st_ in A.startup_runs():
        for w in st_.by_kind("write_state"):
            if is_role(w["key"], "topo"):
                lk = loop_of_key(A, w)
                if not isinstance(lk, str):
                    imnames.add(lk[0].name)
    ims = [A.facts.body(n) for n in sorted(imnames)]
    RFLOOR("R3.1", "startup classification function", len(ims), 1)
    if not ims:
        return
    imo = ims[0]
    init_by_kind = dict((A.kind_of(s), s) for s in C["Init"])

    def startup(forces, label, kind):
        s0 = init_by_kind[kind]
        ov = {}
        ov.update(forces)
        from interp import State
        I, fr, out, col = forced_analysis(A, imo, ov, cfgd=dict(label=label, cell_init={"topo": fin(A.L.jobstate, [s0])},
                                                                  default_states=fin(A.L.jobstate, C["Init"])))
        ws = [v for k, v in I.rec.facts.items() if k[0] == "write_state" and is_role(v["key"], "topo")]
        # must: the iteration cannot complete without a state write
        return I, fr, ws

    import models
    def lift_bb(I, fact, fid):
        idx = dict(((nm[0], tuple(nm[1])), f) for f, nm in I.frame_names.items())
        ch = list(fact.get("stack") or ()) + [(fact["fn"], fact["bb"])]
        for i_, (fn_, bb_) in enumerate(ch):
            if idx.get((fn_, tuple(ch[:i_]))) == fid:
                return bb_
        return None

    def must_write(I, fr, ws):
        if not ws:
            return False
        body = imo
        heads = set(w["key"][0][2] for w in ws if isinstance(w["key"][0], tuple) and w["key"][0][1] == fr.fid)
        if len(heads) != 1:
            return False
        h = list(heads)[0]
        ws = [dict(w, bb=lift_bb(I, w, fr.fid)) for w in ws]
        if any(w["bb"] is None for w in ws):
            return False
        sw = body.term(h)["t"]
        loop = body.natural_loop(h)
        errs = error_exit_blocks(A, body)
        es = I.edges.get(fr.fid, set())
        succ = {}
        for (a, b) in es:
            succ.setdefault(a, []).append(b)
        blocks = set(w["bb"] for w in ws)
        for s0 in [s_ for s_ in body.succs(sw) if s_ in loop]:
            seen, stk = set(), [s0]
            while stk:
                x = stk.pop()
                if x in seen or x in blocks or x in errs:
                    continue
                seen.add(x)
                stk.extend(succ.get(x, ()))
            if h in seen:
                return False
        return True

    from rules_more import requirement_field
    from rules_c04 import positive_answer
    rf_ = requirement_field(A)
    pos_ = positive_answer(A)

    def edges_needed(rule_, I_, fr_, what, kn_):
        """... and what it is going to be rebuilt from is asked for: the 'needed' flag it declares for its incoming dependencies
        in that case is 'needed' on every path (declared 'not needed', an up-to-date Ephemeral input is skipped)"""
        if pos_ is None:
            return
        wes = [v for k, v in I_.rec.facts.items() if k[0] == "write_edge" and v["proj"] == rf_
               and is_role((v["b"], I_.sym_info.get(v["b"], (frozenset(), None))[0]), "topo")]
        vals = set()
        for v in wes:
            if v["value"][0] == "fin":
                vals |= set(v["value"][2])
            else:
                vals.add(None)
        ROB(rule_, "startup | %s job %s | declares its incoming dependencies as needed" % (kn_, what),
            bool(wes) and vals == {pos_}, detail="flag values declared: %s" % sorted(map(str, vals)),
            site=A.site(wes[0]) if wes else "")

    ne_true = lambda I, state, frame, bi, t, args, span: [(TRUE, state)]
    ne_false = lambda I, state, frame, bi, t, args, span: [(FALSE, state)]
    eq_true = ne_true
    for kind in sorted(skippable):
        kn = A.uni.variants[A.L.jobstate][kind]
        # R3.1: the recorded input-name list differs from the current one
        I, fr, ws = startup({"std::cmp::PartialEq::ne": ne_true, "std::cmp::PartialEq::eq": ne_false,
                             "std::collections::HashMap::<K, V, S, A>::get": force_hist_some(A)}, "R31", kind)
        tos = set()
        for w in ws:
            tos |= set(w["to"])
        ROB("R3.1", "startup | %s job whose input-name list changed | is marked invalidated on every path" % kn,
             must_write(I, fr, ws) and bool(tos) and tos <= inv, detail="states written: %s" % A.snames(tos))
        edges_needed("R3.1e", I, fr, "whose input-name list changed", kn)
        # R3.4: no own record at all (and it has upstreams)
        I, fr, ws = startup({"std::collections::HashMap::<K, V, S, A>::get": force_hist_none(A),
                             "std::collections::HashMap::<K, V, S, A>::contains_key": lambda I_, st_, fr_, bi_, t_, a_, sp_: [(FALSE, st_)],
                             STRAT + "output_already_present": force_bool(True),
                             A.L.evaluator.split("<")[0] + "::<T>::has_upstreams": lambda I_, st_, fr_, bi_, t_, a_, sp_: [(TRUE, st_)]},
                            "R34", kind)
        tos = set()
        for w in ws:
            tos |= set(w["to"])
        ROB("R3.4", "startup | %s job with upstreams but without any own record | is marked invalidated on every path" % kn,
             must_write(I, fr, ws) and bool(tos) and tos <= inv,
             detail="a job that has no record of a successful execution leaves startup un-invalidated (states written: %s)" % A.snames(tos))
        edges_needed("R3.4e", I, fr, "with upstreams but without any own record", kn)
        if kind not in cleanup_kinds:
            # R3.2: the result does not exist
            I, fr, ws = startup({"std::cmp::PartialEq::ne": ne_false, "std::cmp::PartialEq::eq": ne_true,
                                 "std::collections::HashMap::<K, V, S, A>::get": force_hist_some(A),
                                 STRAT + "output_already_present": force_bool(False)}, "R32", kind)
            tos = set()
            for w in ws:
                tos |= set(w["to"])
            ROB("R3.2", "startup | %s job whose result does not exist | is marked invalidated on every path" % kn,
                 must_write(I, fr, ws) and bool(tos) and tos <= inv, detail="states written: %s" % A.snames(tos))
            edges_needed("R3.2e", I, fr, "whose result does not exist", kn)


@prop("C03")
def check_C03(A, R, tier):
    C = A.classes()
    K = kinds(A)
    H = A.handler_runs()
    sk = skip_kind(A)
    cleanup_kinds = set(A.kind_of(s) for s in C["CleanupOffered"])
    # skippable kinds: kinds with a finished, not failed, never-started state
    skippable = set()
    for s in C["Finished"] - C["FailedLike"]:
        if reachable_without_running(A, s) and s in A.reach():
            skippable.add(A.kind_of(s))
    R.info["skippable_kinds"] = sorted(skippable)
    # states that cannot be skipped any more (Output) / are marked invalidated (Ephemeral): no re-validation, and
    # for kinds without cleanup (Output) no skip emission at all
    inv = invalidated_states(A)
    R.info["invalidated_states"] = A.snames(inv)
    R.floor("R3.1", "invalidated states", len(inv), 2)
    # the startup classification: the function whose loop hands out the jobs in (reverse) topological order
    from rules_more import loop_of_key
    rule_startup_detectors(A, R)
    # R3.9 (= R7.7): a job skipped as up to date whose (Ephemeral) input then fails ends upstream-failed, not 'skipped': what it
    # was built from no longer exists
    from rules_more import rule_upstream_failure_reclassifies
    rule_upstream_failure_reclassifies(A, R, "R3.9")
    # R3.10 (= R15.4): 'as judged by the configured comparison' - the comparison is asked about the right pair of jobs
    rule_comparison_pair(A, R, "R3.10")
    uvs, vt = rule_validation_verdict(A, R, "R3.3")
    # R3.5: a job of a kind without cleanup is skipped only under the 'validated' verdict
    sc = [A.facts.body(n) for n in sorted(consider_entry_fns(A, sk))]
    for b in sc:
        for uvb in uvs:
            for verdict in A.uni.fin[vt]:
                ov = {uvb.name: (lambda vv: (lambda I_, st_, fr_, bi_, t_, a_, sp_: [(adt(RESULT, {0: (fin(vt, [vv]),)}), st_)]))(verdict)}
                for s in sorted(C["Init"]):
                    if A.kind_of(s) in cleanup_kinds or A.kind_of(s) not in skippable:
                        continue
                    I, fr, out, col = forced_analysis(A, b, ov, cfgd=dict(label="SC", cell_init={"param": fin(A.L.jobstate, [s])}))
                    skips = [v for k, v in I.rec.facts.items() if k[0] == "push_signal" and sk in v["kinds"] and is_role(v["key"], "param")]
                    consulted = any(k[0] == "call" and v["callee"] == uvb.name for k, v in I.rec.facts.items()) or True
                    if verdict == validated_verdict(A, sk):
                        continue
                    R.ob("R3.5", "%s | %s, verdict %s | is not skipped" % (short(b.name), A.sname(s), A.uni.show(vt, verdict)), not skips,
                         detail="a job is skipped although its validation did not succeed", site=A.site(skips[0]) if skips else "")
    # R3.6: what a failed / interrupted attempt leaves behind cannot vouch for the job later
    rule_started_failed_dropped(A, R, "R3.6")
    rule_failed_edges_untouched(A, R, "R3.6")
    rule_never_started_kept(A, R, "R3.6")
    # R3.8: an invalidated Ephemeral somebody can need is never skipped
    rule_no_skip_when_invalidated(A, R, "R3.8")
    # R3.7: a job that was skipped early and whose upstream fails afterwards must not stay 'skipped': the failure reaches every
    # direct downstream (= R7.1/R7.2)
    from rules_more import rule_failure_propagation
    rule_failure_propagation(A, R, "R3.7", "R3.7")
    from rules_history import rule_output_attached, pair_rule
    rule_output_attached(A, R, "R3.6")     # an attempt that is reported failed leaves no output behind that new_history would record
    pair_rule(A, R, "R3.6")                # the input-name list is (re)written only together with the output record of a success
    R.explanation = ("Each change detector is shown to reach the decision (necessary conditions): the startup classification is analysed with "
                     "the detector's outcome forced (input-name list differs / result missing / no own record) and must, on every path, move "
                     "the job to a state from which it is never re-validated; the validation function is analysed with the dependency "
                     "check forced and the upstream in each concrete state: it never answers 'validated' with an invalidated dependency or "
                     "an undecided upstream; jobs that need no cleanup are skipped only under the 'validated' verdict.")
    R.assume("that validation is repeated when an upstream finishes later is an ordering fact that is not decided")


def verdict_loop(A, b, ei_names, vt, validated):
    """per-iteration effect of the validation loop on its accumulators, for every upstream state and both answers
    of the dependency check; plus the gate: which accumulator valuations allow the 'validated' verdict"""
    from interp import Interp, Config
    from domain import av_set
    body = b
    heads = [h for (_, h) in body.back_edges()]
    heads = [h for h in set(heads) if body.term(h)["k"] == "call" and (M.callee_name(body.term(h)) or "").endswith("::next")]
    if len(heads) != 1:
        return None
    h = heads[0]
    from rules_more import loop_region
    region, cont = loop_region(body, h, A)
    if cont is None:
        return None
    loop = body.natural_loop(h)
    sw = body.term(h)["t"]
    somes = [s_ for s_ in body.succs(sw) if s_ in loop]
    # accumulators: named bool/integer locals assigned a constant before the loop and assigned inside it
    accs = {}
    inside = set()
    for blk in body.blocks:
        if blk["cleanup"]:
            continue
        for st in blk["stmts"]:
            if st["k"] == "assign" and not st["p"]["p"]:
                l = st["p"]["l"]
                ty = body.locals[l]["s"]
                if ty not in ("bool", "i32", "u32", "usize", "i64", "u64") or l not in body.local_names:
                    continue
                if blk["i"] in region:
                    inside.add(l)
                elif st["r"]["k"] == "use" and "const" in st["r"]["o"] and body.dominates(blk["i"], h):
                    o = st["r"]["o"]
                    if ty == "bool":
                        accs[l] = ("fin", BOOL, frozenset([(1,) if o["const"] == "true" else (0,)]), ())
                    elif "int" in o:
                        accs[l] = ("int", int(o["int"], 16))
    accs = dict((l, v) for l, v in accs.items() if l in inside)
    if not accs:
        return None
    res = dict(**{"pass": {}, "consulted": {}, "gate": []})

    def mk(ei_val, called):
        def f(I_, st_, fr_, bi_, t_, a_, sp_):
            called.append(1)
            return [(adt(RESULT, {0: (boolean([ei_val]),)}), st_)]
        return f
    # a full run provides the abstract states at the loop's blocks
    I0, fr0, out0, col0 = forced_analysis(A, body, {}, cfgd=dict(label="UV0"))
    ins = col0["ins"]
    sym = None
    for hk in (ins.get(somes[0]).heap if somes and somes[0] in ins else {}):
        if hk[0] == "job" and isinstance(hk[1], tuple) and hk[1][:3] == ("b", fr0.fid, h):
            sym = hk[1]
    if sym is None:
        return None
    for d in A.JS:
        for ei_val in (True, False):
            called = []
            ov = dict((n, mk(ei_val, called)) for n in ei_names)
            direct = []

            def fb(I_, st_, fr_, bi_, t_, a_, sp_, _v=ei_val, _d=direct):
                _d.append(1)
                return force_bool(_v)(I_, st_, fr_, bi_, t_, a_, sp_)
            ov[STRAT + "is_history_altered"] = fb
            I = Interp(A.facts, A.uni, A.layout, Config(label="UVI"))
            I.models = dict(I.models)
            I.models.update(ov)
            I.frame_ids = dict(I0.frame_ids)
            I.frame_names = dict(I0.frame_names)
            passing = False
            for s0 in somes:
                if s0 not in ins:
                    continue
                st = ins[s0].copy()
                for l, v in accs.items():
                    st.locals[(fr0.fid, l)] = v
                hk = ("job", sym)
                cell = st.heap.get(hk)
                if cell is None or cell[0] != "adt":
                    return None
                st.heap[hk] = av_set(cell, (("f", A.L.state_field),), fin(A.L.jobstate, [d]), A.uni)
                col2 = {}
                I.run(fr0, st, start=s0, stops={h, cont}, collect=col2)
                for b_, s2 in col2["stops"].items():
                    same = True
                    for l, v in accs.items():
                        cur = s2.locals.get((fr0.fid, l))
                        if v[0] == "fin":
                            if cur is None or cur[0] != "fin" or not (v[2] & cur[2]):
                                same = False
                        else:
                            if cur is None or cur[0] != "int" or (cur[1] is not None and cur[1] != v[1]):
                                same = False
                    if same:
                        passing = True
            res["pass"][(d, ei_val)] = passing
            # evidence is never lost: started with an accumulator away from its initial value (an invalidated dependency / an
            # undecided upstream seen earlier), no iteration brings it back to the initial value
            for l, v in accs.items():
                if v[0] == "fin":
                    raised = ("fin", BOOL, frozenset([(1,), (0,)]) - v[2], ())
                else:
                    raised = ("int", v[1] + 1)
                for s0 in somes:
                    if s0 not in ins:
                        continue
                    st = ins[s0].copy()
                    for l2, v2 in accs.items():
                        st.locals[(fr0.fid, l2)] = raised if l2 == l else v2
                    hk = ("job", sym)
                    cell = st.heap.get(hk)
                    st.heap[hk] = av_set(cell, (("f", A.L.state_field),), fin(A.L.jobstate, [d]), A.uni)
                    col3 = {}
                    I.run(fr0, st, start=s0, stops={h, cont}, collect=col3)
                    for b_, s3 in col3["stops"].items():
                        cur = s3.locals.get((fr0.fid, l))
                        lowered = False
                        if v[0] == "fin":
                            lowered = cur is None or cur[0] != "fin" or bool(v[2] & cur[2])
                        else:
                            lowered = cur is None or cur[0] != "int" or (cur[1] is not None and cur[1] == v[1])
                        if lowered:
                            res.setdefault("lowered", set()).add((body.local_name(l), d))
            if called:
                res["consulted"][d] = True
            if called or direct:
                res.setdefault("compared", {})[d] = True
    # gate: from the continuation, which valuations can give the validated verdict?
    def verdicts(vals):
        if cont not in ins:
            return set()
        st = ins[cont].copy()
        for l, v in vals.items():
            st.locals[(fr0.fid, l)] = v
        I = Interp(A.facts, A.uni, A.layout, Config(label="UVG"))
        I.frame_ids = dict(I0.frame_ids)
        I.frame_names = dict(I0.frame_names)
        ex = I.run(fr0, st, start=cont)
        out = set()
        if ex is not None:
            rv = ex.locals.get((fr0.fid, 0))
            if rv is not None and rv[0] == "adt" and 0 in adt_variants(rv):
                p = adt_variants(rv)[0][0]
                if p[0] == "fin":
                    out = set(p[2])
                else:
                    out = set(A.uni.fin[vt])
        return out
    v0 = verdicts(accs)
    res["gate"].append(("all accumulators untouched (reachable)", validated in v0))
    for l, v in accs.items():
        ch = dict(accs)
        if v[0] == "fin":
            ch[l] = ("fin", BOOL, frozenset([(1 - list(v[2])[0][0],)]), ())
        else:
            ch[l] = ("int", v[1] + 1)
        vv = verdicts(ch)
        res["gate"].append(("'%s' untouched" % body.local_name(l), validated not in vv))
    return res


def consider_entry_fns(A, sk):
    """the function(s) the consider handler calls directly and below which the skip signal is emitted"""
    K = kinds(A)
    H = A.handler_runs()
    sp = A.signal_processor()
    out = set()
    for (k, s), run in H.items():
        if k != K["consider"]:
            continue
        for v in run.by_kind("push_signal"):
            if sk in v["kinds"] and v["container"] != "queue" and is_role(v["key"], "sigtarget"):
                ch = run.chain(v)
                # the activation that hands out the signals (it binds the signal's job) and everything above it belong to the
                # processor; the next activation below is the consider logic's entry
                sym = v["key"][0]
                bind_fid = sym[1] if (isinstance(sym, tuple) and sym[0] == "b") else None
                pos = None
                for i_, c_ in enumerate(ch):
                    if c_[0] == bind_fid:
                        pos = i_
                if pos is not None and pos + 1 < len(ch):
                    out.add(ch[pos + 1][1])
                elif len(ch) >= 2 and ch[0][1] == sp.name:
                    out.add(ch[1][1])
                else:
                    out.add(v["fn"])
    return out


def validation_ty(A):
    for p, a in A.facts.adts.items():
        if a["enum"] and p in A.uni.fin and p != A.L.jobstate:
            # the enum embedded in the job state
            for ft in A.uni.field_tys[A.L.jobstate]:
                pass
    # the finite enum that appears as a field of a field of the job state
    inner = set()
    for vi, row in enumerate(A.uni.field_tys[A.L.jobstate]):
        for t in row:
            for row2 in A.uni.field_tys[t]:
                for t2 in row2:
                    inner.add(t2)
    if len(inner) != 1:
        raise Imprecision("cannot identify the validation-status type (%r)" % inner)
    return list(inner)[0]


def validated_verdict(A, sk):
    """the verdict under which the consider logic emits the skip signal for an Init job of a kind without cleanup"""
    if "_vv" in A.__dict__:
        return A.__dict__["_vv"]
    C = A.classes()
    K = kinds(A)
    vt = validation_ty(A)
    cleanup_kinds = set(A.kind_of(s) for s in C["CleanupOffered"])
    uvs = [b for b in A.evaluator_methods() if b.locals[0]["s"].startswith("std::result::Result<%s" % vt)]
    H = A.handler_runs()
    fns = consider_entry_fns(A, sk)
    res = None
    for fnn in fns:
        b = A.facts.body(fnn)
        for uvb in uvs:
            for verdict in A.uni.fin[vt]:
                ov = {uvb.name: (lambda vv: (lambda I_, st_, fr_, bi_, t_, a_, sp_: [(adt(RESULT, {0: (fin(vt, [vv]),)}), st_)]))(verdict)}
                for s in sorted(C["Init"]):
                    if A.kind_of(s) in cleanup_kinds:
                        continue
                    I, fr, out, col = forced_analysis(A, b, ov, cfgd=dict(label="VV", cell_init={"param": fin(A.L.jobstate, [s])}))
                    skips = [v for k, v in I.rec.facts.items() if k[0] == "push_signal" and sk in v["kinds"]]
                    if skips:
                        if res is not None and res != verdict:
                            A.__dict__["_vv"] = None
                            return None
                        res = verdict
    A.__dict__["_vv"] = res
    return res


# =============================================================================================
def no_output_points(A):
    """finished states in which a job can have no history_output (over-approximation): everything except the states
    that are only entered after the output was attached (success closure, skip with a mandatory record)"""
    C = A.classes()
    K = kinds(A)
    H = A.handler_runs()
    pts, execok, postrun = final_points(A)
    hf = A.L.histout_field
    sk = skip_kind(A)
    must_some = set(execok)
    for s in A.JS:
        run = H[(sk, s)]
        for v in run.by_kind("write_jobfield"):
            if v["field"] == hf and v["value"][0] == "adt" and set(adt_variants(v["value"])) == {1}:
                for w in run.by_kind("write_state"):
                    if w["key"][0] == v["key"][0] and connected(A, w, v):
                        must_some |= set(w["to"])
    return [s for s in sorted(C["Finished"] & A.reach()) if s not in must_some]


def rule_history_after_any_outcome(A, R, rule):
    """new_history's loops have no error / panic exit for a job without output in any state such a job can end in"""
    C = A.classes()
    n = 0
    for s in no_output_points(A):
        n += 1
        run = nh_run(A, "edgea|%s|none" % A.sname(s), "edge_a", [s], histout=0, extra_roles={"edge_b": dict(state=None, histout=1, bools={})})
        errs = [v for v in run.by_kind("error_construct") if any(c[0][3:4] == ("ea",) for c in v["cells"] if isinstance(c[0], tuple))]
        R.ob(rule, "new_history | upstream without output ended in %s, downstream succeeded | recording the dependency cannot fail" % A.sname(s),
             not errs, detail="new_history returns %s for a state a job can legitimately end in" % (errs[0]["variant"] if errs else ""),
             site=A.site(errs[0]) if errs else "")
        if s in C["FailedLike"]:
            run = nh_run(A, "node|%s|none" % A.sname(s), "alljobs", [s], histout=0)
            pans = [v for v in run.by_kind("panic") if v.get("possible", True) and any(c[0][3:4] == ("jobs",) for c in v["cells"] if isinstance(c[0], tuple))]
            errs = [v for v in run.by_kind("error_construct") if any(c[0][3:4] == ("jobs",) for c in v["cells"] if isinstance(c[0], tuple))]
            R.ob(rule, "new_history | job without output ended in %s | recording the job cannot panic or fail" % A.sname(s), not pans and not errs,
                 site=A.site((pans + errs)[0]) if (pans + errs) else "")
    R.floor(rule, "finished states possible without an output", n, 9)


def continues(A, run):
    """Did the handler accept the signal?  After a signal was handed out, can the processor take the next one (reach the head of
    the loop that binds the signal's job again) along edges the abstract run took, without passing an error construction / `?`
    propagation?  (A rejecting handler leaves only error paths.)"""
    from rules_more import iteration_completes
    return iteration_completes(A, run)


def unwrap_of_lookup(A, fn, bb):
    from rules_more import backward_slice
    body = A.facts.body(fn)
    t = body.term(bb)
    if t["k"] == "call" and t["args"]:
        p = t["args"][0].get("move") or t["args"][0].get("copy")
        if p is not None:
            sl = backward_slice(body, p["l"])
            if any("HashMap" in c and c.endswith("::get") for c in sl["calls"]) and body.locals[p["l"]]["s"].startswith("std::option::Option<&usize"):
                return True
    return False


@prop("C06")
def check_C06(A, R, tier):
    C = A.classes()
    K = kinds(A)
    H = A.handler_runs()
    T = A.transitions()
    runs = all_runs(A)
    api = set(b.name for b in A.evaluator_methods() if b.vis == "Public")
    # R6.1 the kind-change panic is dead: no transition changes the kind -------------------------------
    for t in T:
        w = t["w"]
        bad = [(f, to) for f in w["frm"] for to in w["to"] if A.kind_of(f) != A.kind_of(to)]
        R.ob("R6.1", tkey(A, t) + " | a state write keeps the job kind (the kind-change panic is unreachable)", not bad, site=A.site(w))
    # R6.2 explicit panics outside the API argument checks are unreachable --------------------------------
    seen = {}
    for (entry, label), run in runs:
        for v in run.by_kind("panic"):
            if not v.get("possible", True):
                continue
            k = (v["fn"], v["bb"])
            seen.setdefault(k, (v, set()))[1].add(label)
    n_exempt = 0
    residual = []
    for (fn, bb), (v, labels) in sorted(seen.items()):
        top = not v["stack"] and fn in api
        if v["kind"] == "diverging_call":
            nm = v["detail"][0] if v["detail"] else ""
            explicit = nm.endswith("begin_panic") or nm.endswith("panic_fmt") or nm.endswith("panic_display")
            untouched = all(cs is None or len(cs) == len(A.JS) for (_sym, cs, _x) in (v.get("cells") or ()))
            spn = set(A.signal_entry_names())
            in_api_only = (v["stack"] or ()) and v["stack"][0][0] in api and not (set(x[0] for x in v["stack"]) & spn)
            if top or (untouched and in_api_only):
                n_exempt += 1      # argument / status checks of the public API (documented misuse): nothing job-specific was read yet
                continue
            if explicit:
                R.ob("R6.2", "%s | explicit panic is unreachable" % short(fn), False,
                     detail="panic!(%s) is reachable in the analysed runs %s" % (v["detail"][1], sorted(labels)[:3]), site=A.site(v))
            else:
                residual.append("%s: %s (%s)" % (short(fn), (v["detail"][1] or [""])[0][:60] if v["detail"] else "", A.site(v)))
        else:
            # R6.3 unwrap / expect
            if top:
                body = A.facts.body(fn)
                t = body.term(bb)
                lib = None
                if t["k"] == "call" and t["args"]:
                    p = t["args"][0].get("move") or t["args"][0].get("copy")
                    if p is not None:
                        from rules_more import backward_slice
                        sl = backward_slice(body, p["l"])
                        lib = sl["calls"]
                is_lookup = lib is not None and any("HashMap" in c and c.endswith("::get") for c in lib)
                is_cycle = lib is not None and any(c.startswith("petgraph::algo::") for c in lib)
                R.ob("R6.3", "%s | unwrap in the public API is an argument check (unknown id / cyclic graph)" % short(fn), is_lookup or is_cycle,
                     detail="unwrap of a value that is not an id lookup or the cycle check", site=A.site(v))
            elif unwrap_of_lookup(A, fn, bb):
                n_exempt += 1      # id lookup in a helper of the public API (unknown id = misuse)
            else:
                R.ob("R6.3", "%s | unwrap/expect is guarded" % short(fn), False,
                     detail="%s may hit the empty case (no dominating test, neighbour relation or shape fact justifies it)" % v["kind"], site=A.site(v))
    R.info["api_argument_panics"] = n_exempt
    R.info["residual_assertions_not_judged"] = residual
    nun = 0
    for (entry, label), run in runs:
        for v in run.by_kind("panic"):
            if v["kind"].startswith("unwrap") and not v.get("possible", True):
                nun += 1
    R.floor("R6.3", "unwraps proven guarded (edge lookups between neighbours, split after contains, topological order)", nun, 3)
    # R6.4 error discipline ---------------------------------------------------------------------------------
    sites = {}
    for (entry, label), run in runs:
        for v in run.by_kind("error_construct"):
            sites.setdefault((v["fn"], v["bb"], v["variant"]), v)
    ev_names = set(A.evaluator_fn(n).name for n in list(EVENTS) + ["event_startup"])
    for (fn, bb, variant), v in sorted(sites.items()):
        if variant == "APIError":
            chain_fns = [x[0] for x in (v["stack"] or ())] + [fn]
            spn = A.signal_entry_names()
            R.ob("R6.4", "%s | APIError is only raised by the event functions' own guards" % short(fn),
                 chain_fns[0] in ev_names and not (set(chain_fns) & set(spn)), site=A.site(v))
        elif variant != "InternalError":
            R.ob("R6.4", "%s | %s is only raised by the success event" % (short(fn), variant),
                 fn == A.evaluator_fn("event_job_finished_success").name, site=A.site(v))
    R.info["internal_error_sites_reachable_in_the_abstraction"] = sorted(set("%s (%s)" % (short(fn), A.site(v)) for (fn, bb, var), v in sites.items() if var == "InternalError"))
    # R6.5 emitter / handler agreement for signals a handler sends to its own job ---------------------------
    n = 0
    for (k, s), run in H.items():
        for v in run.by_kind("push_signal"):
            if v["container"] == "queue" or not is_role(v["key"], "sigtarget"):
                continue
            own = None
            for c in v["cells"]:
                if c[0] == v["key"][0]:
                    own = c[1]
            if own is None:
                continue
            for k2 in v["kinds"]:
                for s2 in own:
                    n += 1
                    R.ob("R6.5", "%s | %s handler from %s sends %s to the same job in %s | the receiving handler accepts that state"
                         % (short(v["fn"]), A.kname(k), A.sname(s), A.kname(k2), A.sname(s2)), continues(A, H[(k2, s2)]),
                         detail="the handler of %s rejects a job in state %s with an internal error" % (A.kname(k2), A.sname(s2)), site=A.site(v))
    R.floor("R6.5", "self-addressed emissions", n, 15)
    # events: the signal an accepted event queues is accepted by its handler
    for name in EVENTS:
        for s, run in A.event_runs(name).items():
            for v in run.by_kind("push_signal"):
                if v["container"] != "queue":
                    continue
                for k2 in v["kinds"]:
                    R.ob("R6.5", "%s | from %s queues %s | the handler accepts that state" % (name, A.sname(s), A.kname(k2)), continues(A, H[(k2, s)]),
                         detail="the handler rejects the state the event accepted", site=A.site(v))
    # R6.6 duplicate protection: an emission whose repetition would be rejected cancels the pending consider signals -------
    n = 0
    for (k, s), run in H.items():
        if k != K["consider"]:
            continue
        for v in run.by_kind("push_signal"):
            if v["container"] == "queue" or not is_role(v["key"], "sigtarget"):
                continue
            for k2 in v["kinds"]:
                if k2 == K["consider"]:
                    continue
                # state after the first handling
                own = None
                for c in v["cells"]:
                    if c[0] == v["key"][0]:
                        own = c[1]
                after = set()
                for s2 in (own or ()):
                    for w in H[(k2, s2)].by_kind("write_state"):
                        if is_role(w["key"], "sigtarget"):
                            after |= set(w["to"])
                dup_rejected = any(not continues(A, H[(k2, s3)]) for s3 in after)
                if not dup_rejected:
                    continue
                n += 1
                cancels = [x for x in run.by_kind("set_op") if x["op"] == "insert" and x["target"][0] == "local" and x["elem"][0] == "key"
                           and x["elem"][1] == v["key"][0] and connected(A, v, x)]
                cancels += [x for x in run.by_kind("mark") if x["key"][0] == v["key"][0] and x["value"][0] == "fin"
                            and set(x["value"][2]) == {(1,)} and connected(A, v, x)]
                retains = [x for x in run.by_kind("retain") if x["fid"] == v["fid"] or True]
                R.ob("R6.6", "%s | consider handler from %s emits %s | pending consider signals for the job are cancelled (a second %s would be rejected)"
                     % (short(v["fn"]), A.sname(s), A.kname(k2), A.kname(k2)), bool(cancels) and bool(retains),
                     detail="a stale consider signal in the same batch repeats the emission; the second one hits the job in %s and is an internal error"
                            % A.snames(after), site=A.site(v))
    R.floor("R6.6", "emissions that must not be repeated", n, 3)
    # ... and a consider signal is only queued after the pending list was searched for a signal to the same job: with two pending
    # consider signals for one job the first makes it ready and the second repeats the emission
    from rules_more import receiver_local
    seen_push = set()
    n = 0
    SCANS = ("::iter", "::iter_mut", "::into_iter", "::contains", "::any", "::find", "::position", "::contains_key")
    for (k, s), run in H.items():
        for v in run.by_kind("push_signal"):
            if v["container"] == "queue" or K["consider"] not in v["kinds"] or (v["fn"], v["bb"]) in seen_push:
                continue
            seen_push.add((v["fn"], v["bb"]))
            body = A.facts.body(v["fn"])
            t = body.blocks[v["bb"]]["term"]["t"]
            if t["k"] != "call":
                continue
            cont = receiver_local(body, t)
            scans = []
            for blk in body.blocks:
                if blk["cleanup"]:
                    continue
                t2 = blk["term"]["t"]
                if t2["k"] == "call" and t2["args"] and blk["i"] != v["bb"]:
                    g2 = (M.callee_of(t2) or ("",))[0]
                    if any(g2.endswith(x) for x in SCANS) and receiver_local(body, t2) == cont and body.dominates(blk["i"], v["bb"]):
                        scans.append(blk["i"])
            n += 1
            R.ob("R6.6", "%s | a consider signal is queued only after the pending signals were searched for one to the same job" % short(v["fn"]),
                 bool(scans), detail="two consider signals for one job can be pending in the same batch: the first makes the job ready, "
                                     "the second repeats the ready signal, which the handler rejects with an internal error", site=A.site(v))
    R.floor("R6.6", "sites that queue a consider signal", n, 1)
    # ... and a failure that is passed on to a downstream makes the consider signals pending for it obsolete: handled after the
    # failure reached its upstream they would validate the job against an upstream that has no output (internal error, and the
    # rest of the batch - the failure itself - is lost)
    rule_failure_cancels_considers(A, R, "R6.6")
    # R6.7 the history can be assembled for every way a job without output can end
    rule_history_after_any_outcome(A, R, "R6.7")
    # ... and 'finished' is reported (and latched) only when every job is: new_history asserts it job by job (= R5.2)
    from rules_more import rule_finished_means_all
    rule_finished_means_all(A, R, "R6.7")
    # R6.9 (= R12.p) startup pruning is complete: a half-pruned chain of unused Ephemerals is later validated against records of
    # jobs that have no current output (internal error in the dependency check)
    from rules_history import rule_prune_fixpoint
    rule_prune_fixpoint(A, R, "R6.9")
    # R6.8 the startup classification decides the 'needed' flag of every incoming dependency of every job it visits, on every path:
    # jobs visited later (their upstreams: reverse topological order) read those flags and treat an undecided one as an internal error
    rule_startup_declares_edges(A, R, "R6.8")
    # R6.10 the requirement summary accepts every flag value that is written for a downstream of that kind (it treats the
    # combinations it believes impossible as internal errors)
    from rules_c04 import rule_summary_accepts_written_flags
    rule_summary_accepts_written_flags(A, R, "R6.10")
    # R6.11 (= R3.4, defect F6): a job without any own record is invalidated at startup - validated instead, it is later compared
    # with records it does not have, or skipped without an output (both end in an internal error / a failed assertion)
    rule_startup_detectors(A, R, rename={"R3.4": "R6.11"})
    # R6.12 (= R7.8): a dependency flagged as needed decides the summary's answer whatever state its downstream is in: the decision
    # functions behind the summary treat 'not needed, but an Always consumer' as an internal error
    from rules_more import rule_needed_flag_decides
    rule_needed_flag_decides(A, R, "R6.12")
    from rules_c04 import rule_summary_wrappers_transparent
    rule_summary_wrappers_transparent(A, R, "R6.12")
    # F7 is owned by C07 (R7.5); reference only
    R.explanation = ("Necessary conditions, each over all paths: state writes keep the kind (the kind-change panic is dead); explicit panics "
                     "outside the public API's argument checks are unreachable in the abstraction; every unwrap outside those checks is "
                     "guarded (neighbour relation for edge lookups, shape facts for splits, stored topological order); APIError / the "
                     "changed-output error are raised only where documented; signals a handler sends to its own job, and the signals events "
                     "queue, are accepted by the receiving handler in the state they are sent in; emissions whose repetition would be "
                     "rejected cancel pending consider signals; new_history's loops cannot fail for any state a job without output can "
                     "end in.  The remaining InternalError arms and two assertions need inter-job invariants and are listed, not judged.")
    R.assume("the InternalError arms that depend on inter-job invariants (listed in coverage.internal_error_sites_reachable_in_the_abstraction) are not decided")
    R.assume("known finding F7 (C07 R7.5) is a reachable internal error; it is reported under C07")


def rule_no_positional_pairing_of_id_pieces(A, R, rule):
    """the outputs named in two *different* multi-output ids are compared as sets: pairing the pieces of one id with the pieces of
    another by position (zip) calls two ids unrelated as soon as one of them gained or lost an output in front"""
    n = 0
    bad = []
    seen = set()
    for (entry, label), run in all_runs(A):
        for v in run.by_kind("zip"):
            if (v["fn"], v["bb"]) in seen:
                continue
            seen.add((v["fn"], v["bb"]))
            if v["a"] and v["b"]:
                n += 1
                pa = set(p_[1] for p_ in v["a"])
                pb = set(p_[1] for p_ in v["b"])
                if pa != pb:
                    bad.append(v)
    R.ob(rule, "pieces of two different ids are never paired by position", not bad,
         detail="%s pairs the ':::'-pieces of two ids position by position; an output inserted in front of the others shifts every "
                "position and the overlap counts as zero" % (short(bad[0]["fn"]) if bad else ""), site=A.site(bad[0]) if bad else "")
    R.info["positional_pairings_of_pieces"] = n


def _overlap_call(t):
    OVERLAP = ("::intersection", "::contains", "::is_subset", "::is_disjoint", "::difference", "::symmetric_difference")
    c = M.callee_of(t)
    nm = (c[1] or c[0]) if c else ""
    gen = c[0] if c else ""
    return ("HashSet" in nm or "HashSet" in gen or "BTreeSet" in nm or "BTreeSet" in gen) and any(nm.endswith(x) or gen.endswith(x) for x in OVERLAP)


def rename_lookup_fns(A):
    """the helper the dependency check falls back to when a dependency has no record: a function reachable from the dependency
    check (closures included) that takes the history map and two ids, returns an Option and itself contains - directly, in a
    closure or in a small helper - the set comparison of the outputs named in two ids"""
    from rules_more import call_graph, reachable_from
    g = call_graph(A)
    deps = [b.name for b in dependency_checks(A)]
    reach = reachable_from(g, deps)

    def has_overlap(n, depth=0, seen=None):
        seen = seen if seen is not None else set()
        if n in seen or depth > 2:
            return False
        seen.add(n)
        b = A.facts.bodies.get(n)
        if b is None:
            return False
        for blk in b.blocks:
            if not blk["cleanup"] and blk["term"]["t"]["k"] == "call" and _overlap_call(blk["term"]["t"]):
                return True
        return any(has_overlap(m_, depth + 1, seen) for m_ in g.get(n, ()))
    out = []
    for n in sorted(reach):
        cb = A.facts.bodies.get(n)
        if cb is None or cb.kind not in ("Fn", "AssocFn") or not cb.locals[0]["s"].startswith("std::option::Option<"):
            continue
        tys = [cb.locals[i]["s"] for i in range(1, cb.arg_count + 1)]
        if any("HashMap<std::string::String, std::string::String>" in t_ for t_ in tys) and sum(1 for t_ in tys if t_ == "&str") >= 2 \
                and has_overlap(n):
            # the innermost such function: not a wrapper around another candidate
            out.append(cb)
    inner = [cb for cb in out if not any(o.name != cb.name and o.name in reachable_from(g, [cb.name]) for o in out)]
    return inner or out


def rule_rename_lookup_finds(A, R, rule):
    """no fast path switches the rename lookup off: every regular path through the helper passes the scan of the recorded
    dependencies in which the outputs of a former id are compared with those of the missing id (the loop - or the iterator chain -
    that contains the overlap computation).  A test in front of it ('is there a separator in this id / anywhere in the history?')
    that returns 'nothing found' is wrong as soon as the *other* side is the multi-output one."""
    from rules_more import returns_of, residual_blocks, call_graph, reachable_from
    g = call_graph(A)
    fns = rename_lookup_fns(A)
    R.floor(rule, "rename lookup helpers of the dependency check", len(fns), 1)

    def overlap_fn(n):
        b = A.facts.bodies.get(n)
        return b is not None and any(not blk["cleanup"] and blk["term"]["t"]["k"] == "call" and _overlap_call(blk["term"]["t"])
                                     for blk in b.blocks)
    for b in fns:
        helpers = set(n for n in reachable_from(g, [b.name]) if n != b.name and overlap_fn(n))

        def block_scans(blk):
            """the block performs (or hands a closure / helper that performs) the set comparison"""
            t = blk["term"]["t"]
            if blk["cleanup"]:
                return False
            if t["k"] == "call":
                if _overlap_call(t):
                    return True
                c = M.callee_of(t)
                if c and ((c[1] or c[0]) in helpers or any((c[1] or c[0]) in reachable_from(g, [h_]) and False for h_ in ())):
                    return True
                if c and any(h_ in reachable_from(g, [(c[1] or c[0])]) for h_ in helpers if A.facts.body(c[1] or c[0]) is not None):
                    return True
            for st in blk["stmts"]:
                if st["k"] == "assign" and st["r"]["k"] == "agg" and "closure" in st["r"]["kind"]:
                    cn = st["r"]["kind"]["closure"]
                    if cn in helpers or overlap_fn(cn) or any(h_ in reachable_from(g, [cn]) for h_ in helpers):
                        return True
            return False
        scans = set(blk["i"] for blk in b.blocks if block_scans(blk))
        points = set()
        for (_x, h) in b.back_edges():
            if set(b.natural_loop(h)) & scans:
                points.add(h)
        if not points:
            points = set(scans)
        R.ob(rule, "%s | the scan that compares the outputs of former ids with the missing one is identified" % short(b.name), bool(points),
             detail="no loop or iterator chain with a set comparison found", site=b.span["s"])
        if not points:
            continue
        # the outermost scan: a loop / chain that is itself inside another scan loop is not a separate obligation
        errs = error_exit_blocks(A, b) | residual_blocks(b)
        bypass = set(returns_of(b)) & b.reachable(0, points | errs)
        R.ob(rule, "%s | no regular path returns without passing that scan (no fast path in front of it)" % short(b.name), not bypass,
             detail="a return is reachable around the scan: for such ids / histories a renamed job is never recognised and its consumers "
                    "are rebuilt", site=b.span["s"])
