"""Library models for the abstract interpreter (trusted base, DESIGN.md section 2).

Every model has the signature  model(I, state, frame, bi, term, args, span) -> [(ret AV, state)].
`args` are the evaluated argument AVs.  Models never execute anything; they describe the
effect of a std / petgraph function on abstract values and record facts."""
import os
from domain import (DEAD, TOP, BOOL, BOOL_TOP, TRUE, FALSE, fin, boolean, adt, ref, key, string, join, av_get, av_set,
                    adt_variants, strip_links)

OPTION = "std::option::Option"
RESULT = "std::result::Result"
CFLOW = "std::ops::ControlFlow"

MODELS = {}


def model(*names):
    def deco(f):
        for n in names:
            MODELS[n] = f
        return f
    return deco


def coll(elem=None, k=None, tags=()):
    return ("coll", elem, k, frozenset(tags))


def deref(I, state, av, depth=3):
    """value behind (chains of) references"""
    while av[0] == "ref" and depth > 0:
        v = av_get(I.load_root(state, av[1]), av[2], I.uni)
        if v is None:
            return TOP
        av = v
        depth -= 1
    return av


def site(I, frame, bi):
    return (frame.fid, bi)


def ctx(I, state):
    return dict(cells=I.cells(state), ghosts=ghosts(I, state))


def ghosts(I, state):
    out = []
    for hk, v in state.heap.items():
        if hk[0] == "ghost":
            if v[0] == "pending":
                v = join(v[1], BOOL_TOP)
            out.append((hk[1:], v[2] if v[0] == "fin" else None))
    return tuple(sorted(out, key=repr))


def some(x):
    return adt(OPTION, {1: (x,)})


def opt(x):
    return adt(OPTION, {0: (), 1: (x,)})


def ok(x):
    return adt(RESULT, {0: (x,)})


def err(x):
    return adt(RESULT, {1: (x,)})


def bind_key(I, state, sym, roles, constraint=None):
    """A key symbol is (re)bound: its cell starts from the role's initial states."""
    root = ("job", sym, frozenset(roles), constraint)
    state.heap.pop(root[:2], None)
    for hk in [hk for hk in state.heap if hk[0] == "ghost" and str(sym) in hk[3]]:
        del state.heap[hk]
    for hk in [hk for hk in state.heap if hk[0] == "edge" and (hk[1] == sym or hk[2] == sym)]:
        del state.heap[hk]
    state.heap.pop(("shape", ("jobid", sym)), None)
    # a role with a trace partition starts from exactly the partition's state (case distinction);
    # everything else starts from the default closed under the states written so far
    saved = state.written
    I.sym_info[sym] = (frozenset(roles), constraint)
    tags = I.common_role_tags(frozenset(roles))
    if constraint is None and any(t in I.cfg.cell_init for t in tags):
        state.written = frozenset()
    I.load_root(state, root)
    state.written = saved
    return key(sym, roles, constraint)


def fresh_sym(I, frame, bi, tag=""):
    return ("b", frame.fid, bi, tag)


def role_tags(k):
    return set(r[0] if isinstance(r, tuple) else r for r in k[2])


# ---------------------------------------------------------------------------------------------
# formatting / logging / panics

@model("core::fmt::rt::Argument::<'_>::new_debug", "core::fmt::rt::Argument::<'_>::new_display")
def m_fmtarg(I, state, frame, bi, t, args, span):
    return [(("fmtarg", strip_links(deref(I, state, args[0]))), state)]


@model("std::fmt::Arguments::<'a>::new")
def m_fmt_new(I, state, frame, bi, t, args, span):
    tmpl = deref(I, state, args[0])
    arr = deref(I, state, args[1])
    fs = ()
    if arr[0] == "adt":
        fs = adt_variants(arr).get(0, ())
    return [(("fmt", tmpl[1] if tmpl[0] == "bytes" else None, tuple(fs)), state)]


@model("std::fmt::Arguments::<'a>::from_str")
def m_fmt_from_str(I, state, frame, bi, t, args, span):
    s = deref(I, state, args[0])
    return [(("fmt", s, ()), state)]


def decode_template(bs):
    """rustc's compact format template: 0xC0 = next argument, n<0x80 = literal of length n, 0 = end"""
    out = []
    i = 0
    while i < len(bs):
        b = bs[i]
        if b == 0:
            break
        if b == 0xC0:
            out.append(None)
            i += 1
        elif b < 0x80:
            out.append(bs[i + 1:i + 1 + b].decode("utf8", "replace"))
            i += 1 + b
        else:
            return None
    return tuple(out)


@model("std::fmt::format")
def m_format(I, state, frame, bi, t, args, span):
    f = args[0]
    if f[0] == "fmt":
        if f[1] is None:
            return [(string([("unknown",)]), state)]
        if isinstance(f[1], tuple) and f[1] and f[1][0] == "str":
            return [(f[1], state)]
        tm = decode_template(f[1])
        if tm is None:
            return [(string([("unknown",)]), state)]
        provs = []
        for a in f[2]:
            v = a[1] if a[0] == "fmtarg" else TOP
            if v[0] == "str":
                provs.append(v[1])
            elif v[0] == "key":
                provs.append(frozenset([("keynum", v[1])]))
            else:
                provs.append(frozenset([("nonstr", v[0])]))
        # constant arguments (named separators) are folded into the template
        tm2, provs2 = [], []
        ai = 0
        for part in tm:
            if part is None:
                p = provs[ai] if ai < len(provs) else frozenset([("unknown",)])
                ai += 1
                if len(p) == 1 and list(p)[0][0] == "const":
                    lit = list(p)[0][1]
                    if tm2 and tm2[-1] is not None:
                        tm2[-1] = tm2[-1] + lit
                    else:
                        tm2.append(lit)
                else:
                    tm2.append(None)
                    provs2.append(p)
            else:
                if tm2 and tm2[-1] is not None:
                    tm2[-1] = tm2[-1] + part
                else:
                    tm2.append(part)
        return [(string([("fmt", tuple(tm2), tuple(provs2))]), state)]
    return [(string([("unknown",)]), state)]


@model("std::hint::must_use")
def m_must_use(I, state, frame, bi, t, args, span):
    return [(args[0], state)]


@model("log::__private_api_log", "log::max_level", "log::__private_api_enabled")
def m_log(I, state, frame, bi, t, args, span):
    return [(TOP, state)]


@model("<log::Level as std::cmp::PartialOrd<log::LevelFilter>>::le")
def m_log_le(I, state, frame, bi, t, args, span):
    return [(BOOL_TOP, state)]


# ---------------------------------------------------------------------------------------------
# strings

SHAPE_KINDS = ("param", "jobid", "before", "after", "histkey")


def shape_root(s):
    """strings whose provenance names exactly one runtime string in the current activation carry
    path facts ('contains pat' yes/no) in the abstract state, so that every copy sees them"""
    if s is not None and s[0] == "str" and len(s[1]) == 1:
        p = list(s[1])[0]
        if p[0] in SHAPE_KINDS:
            return ("shape", p)
    return None


def str_of(I, state, av):
    v = deref(I, state, av)
    if v[0] == "str":
        r = shape_root(v)
        if r is not None:
            facts = state.heap.get(r)
            if facts is not None and facts[0] == "shapefacts" and facts[1]:
                return ("str", v[1], v[2] | facts[1])
        return v
    return None


def with_shape(s, fact):
    shape = s[2] if len(s) > 2 else frozenset()
    return ("str", s[1], shape | {fact})


@model("core::str::<impl str>::contains")
def m_str_contains(I, state, frame, bi, t, args, span):
    s = str_of(I, state, args[0])
    pat = str_of(I, state, args[1])
    patc = None
    if pat is not None and len(pat[1]) == 1:
        p = list(pat[1])[0]
        if p[0] == "const":
            patc = p[1]
    I.rec.put("str_contains", I.sitekey(frame, bi, -1),
              dict(fn=frame.body.name, bb=bi, span=span, s=s, pat=patc, stack=frame.stack))
    if s is not None and patc is not None:
        shape = s[2] if len(s) > 2 else frozenset()
        if (patc, True) in shape:
            return [(TRUE, state)]
        if (patc, False) in shape:
            return [(FALSE, state)]
        sr = shape_root(s)
        if sr is not None:
            link = ((sr, ()), "shapefact", (patc, True), (patc, False))
            return [(("fin", BOOL, BOOL_TOP[2], (link,)), state)]
        a = args[0]
        if a[0] == "ref":
            # find the location that actually holds the string
            cur = a
            hops = 0
            while hops < 3:
                v = av_get(I.load_root(state, cur[1]), cur[2], I.uni)
                if v is not None and v[0] == "ref":
                    cur = v
                    hops += 1
                else:
                    break
            link = ((cur[1], cur[2]), "shape", (patc, True), (patc, False))
            return [(("fin", BOOL, BOOL_TOP[2], (link,)), state)]
    return [(BOOL_TOP, state)]


@model("core::str::<impl str>::split")
def m_str_split(I, state, frame, bi, t, args, span):
    s = str_of(I, state, args[0])
    pat = str_of(I, state, args[1])
    patc = None
    if pat is not None and len(pat[1]) == 1 and list(pat[1])[0][0] == "const":
        patc = list(pat[1])[0][1]
    provs = s[1] if s is not None else frozenset([("unknown",)])
    piece = ("str", frozenset([("piece", provs, patc)]), frozenset([(patc, False)]) if patc else frozenset())
    return [(("iter", ("fresh", ("av", piece))), state)]     # `split` yields at least one piece


@model("std::iter::Iterator::zip")
def m_iter_zip(I, state, frame, bi, t, args, span):
    """pairs the two sequences by position"""
    def as_iter(v):
        v = deref(I, state, v) if v[0] == "ref" else v
        if v[0] == "iter":
            return v[1]
        if v[0] == "coll":
            return total_tmpl(v) or ("av", v[1] if v[1] is not None else TOP)
        return ("av", TOP)
    ta, tb = as_iter(args[0]), as_iter(args[1])

    def pieces(tm):
        while isinstance(tm, tuple) and tm and tm[0] in ("fresh", "enum"):
            tm = tm[1]
        if isinstance(tm, tuple) and tm and tm[0] == "av" and tm[1] is not None and tm[1][0] == "str":
            return frozenset(p_ for p_ in tm[1][1] if p_[0] == "piece")
        return frozenset()
    I.rec.put("zip", I.sitekey(frame, bi, -1),
              dict(fn=frame.body.name, bb=bi, span=span, a=pieces(ta), b=pieces(tb), stack=frame.stack))
    strip = lambda tm: tm[1] if (isinstance(tm, tuple) and tm and tm[0] == "fresh") else tm
    return [(("iter", ("zip", strip(ta), strip(tb))), state)]


@model("core::str::<impl str>::split_once")
def m_split_once(I, state, frame, bi, t, args, span):
    s = str_of(I, state, args[0])
    pat = str_of(I, state, args[1])
    patc = None
    if pat is not None and len(pat[1]) == 1 and list(pat[1])[0][0] == "const":
        patc = list(pat[1])[0][1]
    provs = s[1] if s is not None else frozenset([("unknown",)])
    a = string([("before", provs, patc)])
    b = string([("after", provs, patc)])
    shape = s[2] if (s is not None and len(s) > 2) else frozenset()
    I.rec.put("split_once", I.sitekey(frame, bi, -1),
              dict(fn=frame.body.name, bb=bi, span=span, s=s, pat=patc, known_contains=(patc, True) in shape,
                   stack=frame.stack))
    if (patc, True) in shape:
        return [(adt(OPTION, {1: (adt("tuple", {0: (a, b)}),)}), state)]
    return [(opt(adt("tuple", {0: (a, b)})), state)]


@model("core::str::<impl str>::is_empty", "std::string::String::is_empty")
def m_str_pred(I, state, frame, bi, t, args, span):
    s_ = str_of(I, state, args[0])
    if s_ is not None and s_[1] and all(p[0] == "const" for p in s_[1]):
        vals = set(p[1] == "" for p in s_[1])
        return [(boolean(sorted(vals)), state)]
    if s_ is not None and s_[1] and all(p[0] == "jobid" for p in s_[1]):
        return [(FALSE, state)]      # job ids are never empty (add_node refuses the empty id)
    return [(BOOL_TOP, state)]


@model("core::str::<impl str>::ends_with", "core::str::<impl str>::starts_with")
def m_str_affix(I, state, frame, bi, t, args, span):
    """s.ends_with(q) == true implies that s contains every literal part of q's format template"""
    s = str_of(I, state, args[0])
    q = str_of(I, state, args[1])
    sr = shape_root(s)
    lits = None
    if q is not None and len(q[1]) == 1:
        p = list(q[1])[0]
        if p[0] == "fmt":
            lits = [x for x in p[1] if x]
        elif p[0] == "const":
            lits = [p[1]]
    if sr is not None and lits:
        links = tuple(((sr, ()), "shapefact", (lit, True), None) for lit in lits)
        return [(("fin", BOOL, BOOL_TOP[2], links), state)]
    return [(BOOL_TOP, state)]


@model("<std::string::String as std::clone::Clone>::clone", "<T as std::string::ToString>::to_string",
       "<std::string::String as std::ops::Deref>::deref", "<std::borrow::Cow<'_, B> as std::ops::Deref>::deref",
       "std::string::<impl std::convert::From<&'a std::string::String> for std::borrow::Cow<'a, str>>::from",
       "std::string::String::as_str", "<str as std::string::ToString>::to_string",
       "<std::string::String as std::string::ToString>::to_string", "std::borrow::ToOwned::to_owned",
       "<str as std::borrow::ToOwned>::to_owned", "<std::string::String as std::convert::AsRef<str>>::as_ref",
       "std::convert::AsRef::as_ref", "std::borrow::Borrow::borrow")
def m_str_id(I, state, frame, bi, t, args, span):
    v = deref(I, state, args[0])
    if v[0] == "str":
        return [(v, state)]
    if v[0] == "key":
        return [(string([("keynum", v[1])]), state)]
    return [(string([("unknown",)]), state)]


@model("std::string::String::push_str")
def m_push_str(I, state, frame, bi, t, args, span):
    a = args[0]
    if a[0] == "ref":
        cur = I.load_root(state, a[1])
        I.store_root(state, a[1], av_set(cur, a[2], string([("unknown",)]), I.uni) if a[2] else string([("unknown",)]))
    return [(TOP, state)]


# ---------------------------------------------------------------------------------------------
# Option / Result / Try

def record_panic(I, state, frame, bi, span, kind, detail=None, possible=True):
    I.rec.put("panic", I.sitekey(frame, bi, -3),
              dict(fn=frame.body.name, bb=bi, span=span, kind=kind, detail=detail, possible=possible,
                   stack=frame.stack, **ctx(I, state)))


@model("std::option::Option::<T>::expect", "std::option::Option::<T>::unwrap")
def m_opt_unwrap(I, state, frame, bi, t, args, span):
    o = args[0]
    if o[0] == "adt" and o[1] == OPTION:
        vs = adt_variants(o)
        record_panic(I, state, frame, bi, span, "unwrap_none", possible=(0 in vs))
        if 1 in vs:
            return [(vs[1][0], state)]
        return []
    record_panic(I, state, frame, bi, span, "unwrap_none")
    return [(TOP, state)]


@model("std::result::Result::<T, E>::unwrap", "std::result::Result::<T, E>::expect")
def m_res_unwrap(I, state, frame, bi, t, args, span):
    o = args[0]
    if o[0] == "adt" and o[1] == RESULT:
        vs = adt_variants(o)
        record_panic(I, state, frame, bi, span, "unwrap_err", possible=(1 in vs))
        if 0 in vs:
            return [(vs[0][0], state)]
        return []
    record_panic(I, state, frame, bi, span, "unwrap_err")
    return [(TOP, state)]


@model("<std::collections::HashMap<K, V, S, A> as std::ops::Index<&Q>>::index", "std::ops::Index::index@HashMap",
       "<std::collections::BTreeMap<K, V, A> as std::ops::Index<&Q>>::index")
def m_map_index(I, state, frame, bi, t, args, span):
    """map[key]: get(key).expect(..) - panics when the key is absent"""
    res = MODELS["std::collections::HashMap::<K, V, S, A>::get"](I, state, frame, bi, t, args, span)
    out = []
    possible = False
    for (rv, st) in res:
        if rv[0] == "adt" and rv[1] == OPTION:
            vs = adt_variants(rv)
            possible = possible or 0 in vs
            if 1 in vs:
                out.append((vs[1][0], st))
        else:
            possible = True
            out.append((TOP, st))
    record_panic(I, state, frame, bi, span, "unwrap_index", detail=("HashMap index", None), possible=possible)
    return out


@model("std::result::Result::<T, E>::map_err", "std::result::Result::<T, E>::or_else")
def m_res_map_err(I, state, frame, bi, t, args, span):
    """the Ok side passes through unchanged, the Err payload is converted (its new value is not tracked)"""
    o = args[0]
    if o[0] == "adt" and o[1] == RESULT:
        vs = adt_variants(o)
        out = {}
        if 0 in vs:
            out[0] = vs[0]
        if 1 in vs:
            out[1] = (TOP,)
        return [(adt(RESULT, out), state)]
    return [(adt(RESULT, {0: (TOP,), 1: (TOP,)}), state)]


@model("std::result::Result::<T, E>::map", "std::result::Result::<T, E>::and_then")
def m_res_map(I, state, frame, bi, t, args, span):
    """the Err side passes through unchanged; the Ok payload is what the closure makes of it"""
    from mir import callee_of
    o = args[0]
    is_and_then = callee_of(t)[0].endswith("::and_then")
    if o[0] == "adt" and o[1] == RESULT:
        vs = adt_variants(o)
        res = []
        if 1 in vs:
            res.append((adt(RESULT, {1: vs[1]}), state.copy()))
        if 0 in vs:
            for (rv, s2) in call_closure(I, state.copy(), frame, bi, args[1], [vs[0][0]], span):
                if is_and_then:
                    res.append((rv if (rv[0] == "adt" and rv[1] == RESULT) else adt(RESULT, {0: (TOP,), 1: (TOP,)}), s2))
                else:
                    res.append((adt(RESULT, {0: (rv,)}), s2))
        return res
    return [(adt(RESULT, {0: (TOP,), 1: (TOP,)}), state)]


def variant_test(I, state, args, true_variants, false_variants):
    a = args[0]
    if a[0] == "ref":
        v = av_get(I.load_root(state, a[1]), a[2], I.uni)
        if v is not None and v[0] == "adt":
            vs = set(adt_variants(v))
            res = set()
            if vs & true_variants:
                res.add(True)
            if vs & false_variants:
                res.add(False)
            link = ((a[1], a[2]), "variant", frozenset(true_variants), frozenset(false_variants))
            return ("fin", BOOL, frozenset((1,) if r else (0,) for r in res), (link,))
    elif a[0] == "adt":
        vs = set(adt_variants(a))
        res = set()
        if vs & true_variants:
            res.add(True)
        if vs & false_variants:
            res.add(False)
        return boolean(res)
    return BOOL_TOP


@model("std::option::Option::<T>::is_some")
def m_is_some(I, state, frame, bi, t, args, span):
    return [(variant_test(I, state, args, {1}, {0}), state)]


@model("std::option::Option::<T>::is_none")
def m_is_none(I, state, frame, bi, t, args, span):
    return [(variant_test(I, state, args, {0}, {1}), state)]


@model("std::result::Result::<T, E>::is_ok")
def m_is_ok(I, state, frame, bi, t, args, span):
    return [(variant_test(I, state, args, {0}, {1}), state)]


@model("std::result::Result::<T, E>::is_err")
def m_is_err(I, state, frame, bi, t, args, span):
    return [(variant_test(I, state, args, {1}, {0}), state)]


@model("std::option::Option::<T>::as_ref", "std::option::Option::<T>::as_mut")
def m_opt_as_ref(I, state, frame, bi, t, args, span):
    a = args[0]
    if a[0] == "ref":
        v = av_get(I.load_root(state, a[1]), a[2], I.uni)
        if v is not None and v[0] == "obj" and a[1] == ("self",):
            # an evaluator field we do not track by value (e.g. the topological order): keep the location
            return [(opt(ref(a[1], a[2] + (("v", 1), ("f", 0)))), state)]
        if v is not None and v[0] == "adt" and v[1] == OPTION:
            vs = adt_variants(v)
            out = {}
            if 0 in vs:
                out[0] = ()
            if 1 in vs:
                pay = vs[1][0]
                if pay[0] in ("str", "key"):
                    out[1] = (pay,)      # value-as-reference
                else:
                    out[1] = (ref(a[1], a[2] + (("v", 1), ("f", 0))),)
            return [(adt(OPTION, out), state)]
    return [(TOP, state)]


@model("std::option::Option::<&T>::cloned", "std::option::Option::<&T>::copied")
def m_opt_cloned(I, state, frame, bi, t, args, span):
    o = args[0]
    if o[0] == "adt" and o[1] == OPTION:
        vs = adt_variants(o)
        out = {}
        if 0 in vs:
            out[0] = ()
        if 1 in vs:
            out[1] = (deref(I, state, vs[1][0]),)
        return [(adt(OPTION, out), state)]
    return [(TOP, state)]


@model("std::option::Option::<T>::map")
def m_opt_map(I, state, frame, bi, t, args, span):
    o = args[0]
    if o[0] == "adt" and o[1] == OPTION:
        vs = adt_variants(o)
        res = []
        if 0 in vs:
            res.append((adt(OPTION, {0: ()}), state.copy()))
        if 1 in vs:
            for (rv, st) in call_closure(I, state.copy(), frame, bi, args[1], [vs[1][0]], span):
                res.append((some(rv), st))
        return res
    return [(TOP, state)]


@model("std::option::Option::<T>::ok_or_else")
def m_ok_or_else(I, state, frame, bi, t, args, span):
    o = args[0]
    if o[0] == "adt" and o[1] == OPTION:
        vs = adt_variants(o)
        res = []
        if 1 in vs:
            res.append((ok(vs[1][0]), state.copy()))
        if 0 in vs:
            for (rv, st) in call_closure(I, state.copy(), frame, bi, args[1], [], span):
                res.append((err(rv), st))
        return res
    res = [(ok(TOP), state.copy())]
    for (rv, st) in call_closure(I, state.copy(), frame, bi, args[1], [], span):
        res.append((err(rv), st))
    return res


@model("<std::result::Result<T, E> as std::ops::Try>::branch")
def m_try_branch(I, state, frame, bi, t, args, span):
    r = args[0]
    if r[0] == "adt" and r[1] == RESULT:
        vs = adt_variants(r)
        out = {}
        if 0 in vs:
            out[0] = (vs[0][0],)
        if 1 in vs:
            out[1] = (adt(RESULT, {1: (vs[1][0],)}),)
        return [(adt(CFLOW, out), state)]
    return [(adt(CFLOW, {0: (TOP,), 1: (adt(RESULT, {1: (TOP,)}),)}), state)]


@model("<std::result::Result<T, F> as std::ops::FromResidual<std::result::Result<std::convert::Infallible, E>>>::from_residual")
def m_from_residual(I, state, frame, bi, t, args, span):
    r = args[0]
    if r[0] == "adt" and r[1] == RESULT:
        vs = adt_variants(r)
        if 1 in vs:
            return [(adt(RESULT, {1: (vs[1][0],)}), state)]
    return [(adt(RESULT, {1: (TOP,)}), state)]


# ---------------------------------------------------------------------------------------------
# closures

def call_closure(I, state, frame, bi, clo, call_args, span):
    c = clo
    env_ref = None
    if c[0] == "ref":
        env_ref = c
        c = deref(I, state, c)
    if c[0] == "fnref":
        nm = c[1]
        if nm in MODELS:
            fake = {"f": {"fn": nm, "resolved": nm, "local": False, "const": nm, "ty": {"s": ""}},
                    "args": [{"const": "", "ty": {"s": ""}} for _ in call_args], "dest": {"l": 0, "p": []}, "t": 0}
            return MODELS[nm](I, state, frame, bi, fake, list(call_args), span)
        cb = I.facts.body(nm)
        if cb is not None and not any(n == nm for (n, _) in frame.stack):
            return I.inline_call(state, frame, bi, cb, list(call_args), span)
        I.rec.note("unmodelled", nm)
        return [(TOP, state)]
    if c[0] != "adt" or not c[1].startswith("closure:"):
        I.rec.note("imprecise", "call of unknown closure in %s" % frame.body.name)
        return [(TOP, state)]
    name = c[1][len("closure:"):]
    cb = I.facts.body(name)
    if cb is None:
        return [(TOP, state)]
    if any(n == name for (n, _) in frame.stack):
        return [(TOP, state)]
    envty = cb.locals[1]
    if "ref" in envty:
        if env_ref is None:
            root = ("cloenv", frame.fid, bi)
            state.heap[root] = c
            env_ref = ref(root, ())
        a0 = env_ref
    else:
        a0 = c
    return I.inline_call(state, frame, bi, cb, [a0] + list(call_args), span)


@model("std::ops::Fn::call", "std::ops::FnMut::call_mut", "std::ops::FnOnce::call_once")
def m_fn_call(I, state, frame, bi, t, args, span):
    tup = args[1] if len(args) > 1 else adt("tuple", {0: ()})
    fs = adt_variants(tup).get(0, ()) if tup[0] == "adt" else ()
    c = deref(I, state, args[0]) if args[0][0] == "ref" else args[0]
    if c[0] == "adt" and c[1].startswith("closure:"):
        I.rec.put("closure_call", I.sitekey(frame, bi, -1),
                  dict(fn=frame.body.name, bb=bi, span=span, closure=c[1][len("closure:"):],
                       args=[(str_of(I, state, f) or f) for f in fs], stack=frame.stack))
    return call_closure(I, state, frame, bi, args[0], list(fs), span)


def indirect_call(I, state, frame, bi, t, args, span):
    f = I.eval_operand(state, frame, t["f"])
    if f[0] == "adt" and f[1].startswith("closure:"):
        return call_closure(I, state, frame, bi, f, args, span)
    I.rec.note("imprecise", "indirect call in %s bb%d" % (frame.body.name, bi))
    return default_external(I, state, frame, bi, t, args, span, "<indirect>")


# ---------------------------------------------------------------------------------------------
# collections

def is_self_field(I, a, idx):
    return a[0] == "ref" and (a[1], a[2]) == I.layout.self_loc(idx)


def self_field_of(I, a):
    if a[0] == "ref" and a[1] == ("self",) and len(a[2]) == 1 and a[2][0][0] == "f":
        return a[2][0][1]
    return None


@model("std::vec::Vec::<T>::new", "std::collections::HashSet::<T>::new", "std::collections::HashMap::<K, V>::new",
       "std::collections::VecDeque::<T>::new", "std::vec::Vec::<T>::with_capacity")
def m_coll_new(I, state, frame, bi, t, args, span):
    return [(coll(), state)]


def coll_add(I, state, a, elem, k=None, ne=False):
    """weakly add elem to the collection behind reference a (if it is a local summary); ne: an element is certainly added"""
    if a[0] != "ref":
        return
    cur = av_get(I.load_root(state, a[1]), a[2], I.uni)
    if cur is None:
        return
    if cur[0] == "coll":
        elem = with_state_constraint(I, state, elem)
        e2 = anonymise(elem)
        tags = frozenset(x for x in cur[3] if not (isinstance(x, tuple) and x and x[0] == "total"))
        if is_hist_copy(k, elem):
            # the explicit-loop form of clone().drain().filter().collect(): a pair of the input history copied unchanged
            tags = tags | frozenset(["history_filtered", "history_copy"])
        new = ("coll", join(cur[1], e2), join(cur[2], k) if k is not None else cur[2], tags | (frozenset(["ne"]) if ne else frozenset()))
        root_av = I.load_root(state, a[1])
        I.store_root(state, a[1], av_set(root_av, a[2], new, I.uni) if a[2] else new)


def total_tmpl(v):
    """the iterator template a local collection was collected from without any filter (and not changed since): iterating the
    collection enumerates exactly what iterating the source would"""
    if v is not None and v[0] == "coll":
        for x in v[3]:
            if isinstance(x, tuple) and x and x[0] == "total":
                return x[1]
    return None


def coll_changed(I, state, a):
    """an element may have been taken out of / put into the collection behind reference a: it no longer mirrors its source"""
    if a[0] != "ref":
        return
    cur = av_get(I.load_root(state, a[1]), a[2], I.uni)
    if cur is not None and cur[0] == "coll" and (total_tmpl(cur) is not None or any(isinstance(x, tuple) and x and x[0] == "pairs_of" for x in cur[3])):
        new = ("coll", cur[1], cur[2], frozenset(x for x in cur[3] if not (isinstance(x, tuple) and x and x[0] in ("total", "pairs_of"))))
        root_av = I.load_root(state, a[1])
        I.store_root(state, a[1], av_set(root_av, a[2], new, I.uni) if a[2] else new)


def is_hist_copy(k, val):
    """key is a key of the input history and value a value of the input history, both unmodified"""
    return (k is not None and val is not None and k[0] == "str" and val[0] == "str" and set(k[1]) == {("histkey",)}
            and set(val[1]) == {("hist", frozenset([("anykey",)]))})


def with_state_constraint(I, state, av):
    """a job key that enters a local collection remembers the states its job can be in at that moment (the
    explicit-loop counterpart of the filter predicate summary)"""
    if av is not None and av[0] == "key" and av[1] is not None and av[3] is None:
        hk = ("job", av[1])
        cell = state.heap.get(hk)
        if cell is not None and cell[0] == "adt":
            stv = adt_variants(cell)[0][I.layout.state_field]
            if stv[0] == "fin" and len(stv[2]) < len(I.js_full[2]):
                return ("key", av[1], av[2], strip_links(stv))
    return av


def anonymise(av):
    """elements stored in a collection lose their binding identity but keep their roles"""
    if av is None:
        return None
    if av[0] == "key":
        roles = set()
        direct = set()
        for r in av[2]:
            if isinstance(r, tuple) and r[0] in ("via", "was"):
                roles.add(r)
            else:
                direct.add(r)
        if direct:
            roles.add(("via", frozenset(direct)))     # one origin = the conjunction of its roles
        if av[1] is not None:
            roles.add(("was", av[1]))
        return ("key", None, frozenset(roles), av[3])
    if av[0] == "adt":
        return adt(av[1], dict((v, tuple(anonymise(f) for f in fs)) for v, fs in av[2]))
    if av[0] == "fin":
        return strip_links(av)
    return av


def template_filters(tmpl):
    x = tmpl
    while isinstance(x, tuple) and x and x[0] in ("filter", "map", "filter_map", "enum"):
        if x[0] in ("filter", "filter_map"):
            return True
        x = x[1]
    return False


def record_signal_push(I, state, frame, bi, span, container, sig, fresh):
    L = I.layout
    if sig[0] == "adt" and sig[1] == L.signal_ty:
        fs = adt_variants(sig)[0]
        kind = fs[L.sig_kind_field]
        node = fs[L.sig_node_field]
        I.rec.put("push_signal", I.sitekey(frame, bi, -1),
                  dict(fn=frame.body.name, bb=bi, span=span, container=container,
                       kinds=kind[2] if kind[0] == "fin" else I.uni.full(L.signalkind)[2],
                       key=(node[1], node[2]) if node[0] == "key" else (None, frozenset()),
                       total_iter=getattr(I, "total_iter", 0) > 0,
                       stack=frame.stack, **ctx(I, state)))
        return True
    return False


@model("std::vec::Vec::<T, A>::push", "std::collections::VecDeque::<T, A>::push_back")
def m_push(I, state, frame, bi, t, args, span):
    a = args[0]
    sf = self_field_of(I, a)
    x = args[1]
    if sf is not None:
        if sf == I.layout.signals_field:
            record_signal_push(I, state, frame, bi, span, "queue", x, True)
        elif sf == I.layout.jobs_field:
            I.rec.put("push_job", I.sitekey(frame, bi, -1),
                      dict(fn=frame.body.name, bb=bi, span=span, value=x, stack=frame.stack))
        else:
            I.rec.put("store_self", I.sitekey(frame, bi, -1),
                      dict(fn=frame.body.name, bb=bi, span=span, proj=a[2], value=x, old=None, stack=frame.stack, call="push"))
    else:
        if not record_signal_push(I, state, frame, bi, span, ("local", a[1] if a[0] == "ref" else None), x, True):
            I.rec.put("push_local", I.sitekey(frame, bi, -1),
                      dict(fn=frame.body.name, bb=bi, span=span, container=a[1] if a[0] == "ref" else None,
                           key=(x[1], x[2]) if x[0] == "key" else (None, frozenset()), elem=x if x[0] != "key" else None,
                           stack=frame.stack))
        coll_add(I, state, a, x, ne=True)
        # (key, value) records collected in a local Vec and written into a map by one `extend` later: remember each push as
        # the deferred insertion it is (site and context of the push), replayed by the extend
        fs = adt_variants(x)[0] if (x[0] == "adt" and x[1] == "tuple" and len(x[2]) == 1) else None
        if a[0] == "ref" and not a[2] and fs is not None and len(fs) == 2 and fs[0][0] == "str":
            pend = I.__dict__.setdefault("pending_pairs", {})
            sk = I.sitekey(frame, bi, -1)
            old = pend.setdefault(a[1], {}).get(sk)
            pend[a[1]][sk] = dict(fn=frame.body.name, bb=bi, span=span, key=join(old["key"], fs[0]) if old else fs[0],
                                  value=join(old["value"], fs[1]) if old else fs[1], stack=frame.stack, **ctx(I, state))
            cur = av_get(I.load_root(state, a[1]), a[2], I.uni)
            if cur is not None and cur[0] == "coll":
                I.store_root(state, a[1], ("coll", cur[1], cur[2], cur[3] | frozenset([("pairs_of", a[1])])))
    return [(TOP, state)]


@model("<std::collections::VecDeque<T, A> as std::iter::Extend<T>>::extend", "<std::vec::Vec<T, A> as std::iter::Extend<T>>::extend")
def m_extend(I, state, frame, bi, t, args, span):
    a = args[0]
    src = deref(I, state, args[1])
    elem = None
    sf = self_field_of(I, a)
    if src[0] == "coll":
        elem = src[1]
        if elem is not None and elem[0] == "adt" and elem[1] == I.layout.signal_ty:
            I.total_iter = getattr(I, "total_iter", 0) + 1
            cont = "queue" if sf == I.layout.signals_field else ("local", a[1] if a[0] == "ref" else None)
            record_signal_push(I, state, frame, bi, span, cont, elem, False)
            I.total_iter -= 1
    elif src[0] == "iter":
        filtered = template_filters(src[1])
        I.total_iter = getattr(I, "total_iter", 0) + (0 if filtered else 1)
        try:
            rs = instantiate(I, state.copy(), frame, bi, src[1], span, anonymous=False)
            from interp import join_state
            merged = None
            for (e, s1) in rs:
                if e[0] == "adt" and e[1] == I.layout.signal_ty:
                    cont = "queue" if sf == I.layout.signals_field else ("local", a[1] if a[0] == "ref" else None)
                    record_signal_push(I, s1, frame, bi, span, cont, e, True)
                elem = join(elem, anonymise(e))
                merged = join_state(merged, s1)
            if merged is not None:
                state = join_state(state, merged)
        finally:
            I.total_iter = getattr(I, "total_iter", 1) - (0 if filtered else 1)
    I.rec.put("extend", I.sitekey(frame, bi, -1),
              dict(fn=frame.body.name, bb=bi, span=span, target=("self", sf) if sf is not None else ("local",),
                   elem=elem, src=args[1] if args[1][0] == "ref" else None, stack=frame.stack))
    if sf is None and elem is not None:
        ne_src = (src[0] == "iter" and tmpl_nonempty(src[1])) or (src[0] == "coll" and "ne" in src[3])
        coll_add(I, state, a, elem, ne=ne_src)
    return [(TOP, state)]


@model("std::collections::HashSet::<T, S, A>::insert", "std::collections::HashSet::<T, S, A>::remove",
       "std::collections::HashSet::<T, S, A>::contains")
def m_set_op(I, state, frame, bi, t, args, span):
    from mir import callee_of
    op = callee_of(t)[0].split("::")[-1]
    a = args[0]
    x = deref(I, state, args[1])
    sf = self_field_of(I, a)
    target = ("self", sf) if sf is not None else (("obj",) + a[1:] if a[0] == "obj" else ("local", a[1] if a[0] == "ref" else None))
    I.rec.put("set_op", I.sitekey(frame, bi, -1),
              dict(fn=frame.body.name, bb=bi, span=span, op=op, target=target, elem=x, stack=frame.stack, **ctx(I, state)))
    if op == "insert" and sf is None:
        coll_add(I, state, a, x)
    return [(BOOL_TOP, state)]


@model("std::collections::HashMap::<K, V, S, A>::entry")
def m_map_entry(I, state, frame, bi, t, args, span):
    """`map.entry(k)` is (the first half of) an insertion under k: recorded as one, whatever follows (or_insert, or_default, ...)"""
    a = args[0]
    k = str_of(I, state, args[1]) or (deref(I, state, args[1]) if args[1][0] == "ref" else args[1])
    sf = self_field_of(I, a)
    if sf is not None:
        I.rec.put("map_op", I.sitekey(frame, bi, -1),
                  dict(fn=frame.body.name, bb=bi, span=span, op="insert", target=("self", sf), key=k, value=None, stored_keys=None,
                       stack=frame.stack, via_entry=True, **ctx(I, state)))
        if sf not in (I.layout.history_field,):
            pass
    elif a[0] == "ref":
        coll_add(I, state, a, TOP, k=k if (k is not None and k[0] in ("str", "key")) else None)
    return [(TOP, state)]


def hist_value(keystr):
    return string([("hist", keystr[1] if keystr is not None and keystr[0] == "str" else frozenset([("unknown",)]))])


@model("std::collections::HashMap::<K, V, S, A>::get", "std::collections::HashMap::<K, V, S, A>::contains_key",
       "std::collections::HashMap::<K, V, S, A>::insert", "std::collections::HashMap::<K, V, S, A>::remove",
       "std::collections::HashMap::<K, V, S, A>::get_mut")
def m_map_op(I, state, frame, bi, t, args, span):
    from mir import callee_of
    L = I.layout
    op = callee_of(t)[0].split("::")[-1]
    a = args[0]
    k = str_of(I, state, args[1]) or deref(I, state, args[1])
    sf = self_field_of(I, a)
    val = deref(I, state, args[2]) if len(args) > 2 else None
    tags = frozenset()
    cur = None
    if sf is None and a[0] == "ref":
        cur = av_get(I.load_root(state, a[1]), a[2], I.uni)
        if cur is not None and cur[0] == "coll":
            tags = cur[3]
    target = ("self", sf) if sf is not None else ("local", a[1] if a[0] == "ref" else None, tags)
    I.rec.put("map_op", I.sitekey(frame, bi, -1),
              dict(fn=frame.body.name, bb=bi, span=span, op=op, target=target, key=k, value=val,
                   stored_keys=cur[2] if (cur is not None and cur[0] == "coll") else None,
                   stack=frame.stack, **ctx(I, state)))
    if sf == L.idmap_field:
        if op == "get":
            sym = fresh_sym(I, frame, bi, "lookup")
            kav = bind_key(I, state, sym, [("lookup", k[1] if k[0] == "str" else None)])
            return [(opt(kav), state)]
        if op == "contains_key":
            return [(BOOL_TOP, state)]
        return [(TOP, state)]
    if sf == L.history_field:
        if op == "get":
            return [(opt(hist_value(k)), state)]
        if op == "contains_key":
            return [(BOOL_TOP, state)]
        I.rec.note("imprecise", "history map mutated in %s" % frame.body.name)
        return [(TOP, state)]
    if cur is not None and cur[0] == "coll":
        if op == "get":
            if "history_clone" in tags or "history_filtered" in tags:
                return [(opt(join(hist_value(k), cur[1])), state)]
            if cur[1] is None:
                return [(adt(OPTION, {0: ()}), state)]
            return [(opt(cur[1]), state)]
        if op == "contains_key":
            return [(BOOL_TOP, state)]
        if op == "insert":
            coll_add(I, state, a, val, k)
            return [(TOP, state)]
        if op == "remove":
            return [(TOP, state)]
    if op in ("get", "get_mut"):
        return [(opt(TOP), state)]
    if op == "contains_key":
        return [(BOOL_TOP, state)]
    return [(TOP, state)]


@model("<std::collections::HashMap<K, V, S, A> as std::clone::Clone>::clone", "<std::collections::HashSet<T, S, A> as std::clone::Clone>::clone")
def m_coll_clone(I, state, frame, bi, t, args, span):
    a = args[0]
    sf = self_field_of(I, a)
    I.rec.put("clone_field", I.sitekey(frame, bi, -1),
              dict(fn=frame.body.name, bb=bi, span=span, field=sf, stack=frame.stack))
    if sf == I.layout.history_field:
        return [(coll(string([("hist", frozenset([("anykey",)]))]), string([("histkey",)]), ["history_clone"]), state)]
    if sf is not None:
        return [(("obj", ("clone", "self", sf)), state)]
    v = deref(I, state, a)
    return [(v, state)]


@model("std::collections::HashMap::<K, V, S, A>::drain")
def m_map_drain(I, state, frame, bi, t, args, span):
    v = deref(I, state, args[0])
    if v[0] == "coll":
        return [(("iter", ("pairs", v[2], v[1], v[3])), state)]
    return [(("iter", ("av", TOP)), state)]


@model("std::collections::VecDeque::<T, A>::drain", "std::vec::Vec::<T, A>::drain")
def m_deque_drain(I, state, frame, bi, t, args, span):
    a = args[0]
    if is_self_field(I, a, I.layout.signals_field):
        return [(("iter", ("drain_signals",)), state)]
    v = deref(I, state, a)
    if v[0] == "coll":
        return [(("iter", ("av", v[1])), state)]
    return [(("iter", ("av", TOP)), state)]


@model("std::collections::HashMap::<K, V, S, A>::keys")
def m_map_keys(I, state, frame, bi, t, args, span):
    a = args[0]
    sf = self_field_of(I, a)
    if sf == I.layout.history_field:
        return [(("iter", ("av", string([("histkey",)]))), state)]
    v = deref(I, state, a)
    if v[0] == "coll":
        return [(("iter", ("av", v[2] if v[2] is not None else TOP)), state)]
    return [(("iter", ("av", TOP)), state)]


@model("std::collections::HashSet::<T, S, A>::iter", "std::collections::HashSet::<T, S, A>::intersection",
       "std::collections::HashSet::<T, S, A>::drain")
def m_set_iter(I, state, frame, bi, t, args, span):
    sf_ = self_field_of(I, args[0])
    if sf_ is not None:
        # a report that walks a set the evaluator maintains (instead of scanning the job states)
        I.rec.put("iter_field", I.sitekey(frame, bi, -1), dict(fn=frame.body.name, bb=bi, span=span, field=sf_, stack=frame.stack))
    v = deref(I, state, args[0])
    if v[0] == "coll":
        return [(("iter", ("av", v[1])), state)]
    return [(("iter", ("av", TOP)), state)]


@model("std::boxed::Box::<T>::new_uninit")
def m_box_new_uninit(I, state, frame, bi, t, args, span):
    root = ("box", frame.fid, bi)
    state.heap[root] = TOP
    return [(ref(root, ()), state)]


@model("std::boxed::box_assume_init_into_vec_unsafe")
def m_box_into_vec(I, state, frame, bi, t, args, span):
    v = deref(I, state, args[0])
    elem = None
    if v[0] == "adt" and v[1] == "array":
        fs_ = adt_variants(v)[0]
        for f in fs_:
            elem = join(elem, anonymise(f))
        return [(coll(elem, tags=(["ne"] if fs_ else [])), state)]
    return [(coll(TOP), state)]


@model("std::vec::Vec::<T, A>::pop", "std::collections::VecDeque::<T, A>::pop_front", "std::collections::VecDeque::<T, A>::pop_back",
       "core::slice::<impl [T]>::last", "core::slice::<impl [T]>::last_mut", "core::slice::<impl [T]>::first")
def m_vec_pop(I, state, frame, bi, t, args, span):
    v = deref(I, state, args[0])
    res = [(adt(OPTION, {0: ()}), state.copy())]
    if v[0] == "coll":
        removing = any(frame_callee_endswith(t, x) for x in ("::pop", "::pop_front", "::pop_back"))
        if "ne" in v[3] and v[1] is not None:
            res = []          # known to be non-empty: the step yields
        if v[1] is not None:
            st0 = state.copy()
            a = args[0]
            if removing:
                coll_changed(I, st0, a)
                v = deref(I, st0, a)
            if removing and "ne" in v[3] and a[0] == "ref":
                # after taking one element out nothing is known about emptiness any more
                cur = I.load_root(st0, a[1])
                nv = ("coll", v[1], v[2], v[3] - {"ne"})
                I.store_root(st0, a[1], av_set(cur, a[2], nv, I.uni) if a[2] else nv)
            for (e, st) in instantiate(I, st0, frame, bi, ("av", v[1]), span):
                res.append((some(e), st))
    else:
        res.append((some(TOP), state.copy()))
    return res


def frame_callee_endswith(t, suffix):
    from mir import callee_of
    c = callee_of(t)
    return bool(c) and ((c[1] or c[0]) or "").split("<")[0].endswith(suffix) or bool(c) and (c[0] or "").endswith(suffix)


@model("std::iter::Iterator::all", "std::iter::Iterator::any")
def m_iter_all(I, state, frame, bi, t, args, span):
    it = deref(I, state, args[0])
    st = state
    if it[0] == "iter":
        from interp import join_state
        merged = state.copy()
        for (e, s1) in instantiate(I, state.copy(), frame, bi, it[1], span):
            for (rv, s2) in call_closure(I, s1, frame, bi, args[1], [e], span):
                merged = join_state(merged, s2)
        st = merged
    return [(BOOL_TOP, st)]


@model("std::vec::Vec::<T, A>::is_empty", "std::collections::VecDeque::<T, A>::is_empty",
       "std::collections::HashSet::<T, S, A>::is_empty", "std::collections::HashMap::<K, V, S, A>::is_empty")
def m_is_empty(I, state, frame, bi, t, args, span):
    return [(BOOL_TOP, state)]


@model("std::vec::Vec::<T, A>::len", "std::collections::HashMap::<K, V, S, A>::len", "core::slice::<impl [T]>::len")
def m_len(I, state, frame, bi, t, args, span):
    a = args[0]
    if is_self_field(I, a, I.layout.jobs_field):
        return [(("int", None, "jobs_len"), state)]
    return [(("int", None), state)]


@model("std::vec::Vec::<T, A>::retain")
def m_retain(I, state, frame, bi, t, args, span):
    v = deref(I, state, args[0])
    coll_changed(I, state, args[0])
    st = state
    if v[0] == "coll" and v[1] is not None:
        root = ("retelem", frame.fid, bi)
        st = state.copy()
        st.heap[root] = v[1]
        rs = call_closure(I, st, frame, bi, args[1], [ref(root, ())], span)
        out = None
        from interp import join_state
        for (_rv, s2) in rs:
            out = join_state(out, s2)
        if out is not None:
            st = out
    # the jobs the predicate mentions (captured by the closure): what the selective removal is about
    keys = set()
    c = deref(I, state, args[1]) if args[1][0] == "ref" else args[1]
    if c[0] == "adt":
        for fs in adt_variants(c).values():
            for f in fs:
                fv = deref(I, state, f) if f[0] == "ref" else f
                if fv[0] == "key" and fv[1] is not None:
                    keys.add(fv[1])
    I.rec.put("retain", I.sitekey(frame, bi, -1), dict(fn=frame.body.name, bb=bi, span=span, stack=frame.stack, keys=frozenset(keys),
                                                       elem=v[1] if v[0] == "coll" else None))
    return [(TOP, st)]


@model("std::vec::Vec::<T, A>::remove", "std::vec::Vec::<T, A>::swap_remove")
def m_vec_remove(I, state, frame, bi, t, args, span):
    """selective removal of one element: the explicit-loop form of retain"""
    v = deref(I, state, args[0])
    coll_changed(I, state, args[0])
    I.rec.put("retain", I.sitekey(frame, bi, -1), dict(fn=frame.body.name, bb=bi, span=span, stack=frame.stack, form="remove"))
    if v[0] == "coll" and v[1] is not None:
        return instantiate(I, state, frame, bi, ("av", v[1]), span)
    return [(TOP, state)]


@model("<std::vec::Vec<T, A> as std::ops::Deref>::deref", "<std::vec::Vec<T, A> as std::ops::DerefMut>::deref_mut",
       "std::vec::Vec::<T, A>::as_slice", "std::vec::Vec::<T, A>::as_mut_slice")
def m_vec_deref(I, state, frame, bi, t, args, span):
    return [(args[0], state)]


def index_common(I, state, frame, bi, t, args, span):
    a = args[0]
    i = args[1]
    L = I.layout
    if is_self_field(I, a, L.jobs_field):
        if i[0] == "key" and i[1] is not None:
            return [(ref(("job", i[1], i[2], i[3]), ()), state)]
        sym = fresh_sym(I, frame, bi, "idx")
        roles = i[2] if i[0] == "key" else frozenset(["unknown"])
        cons = i[3] if i[0] == "key" else None
        kav = bind_key(I, state, sym, roles, cons)
        return [(ref(("job", sym, kav[2], kav[3]), ()), state)]
    dty = frame.body.locals[t["dest"]["l"]]["s"] if not t["dest"]["p"] else ""
    if dty in ("&mut bool", "&bool") and i[0] == "key" and i[1] is not None and a[0] == "ref" and a[1][0] == "local":
        # a local table of flags indexed by job (`seen[job]`): a store through the returned reference is a per-job mark
        I.rec.put("marktest", I.sitekey(frame, bi, -1),
                  dict(fn=frame.body.name, bb=bi, span=span, key=(i[1], i[2]), stack=frame.stack, fid=frame.fid))
        return [(ref(("marktable", a[1][1:], i[1]), ()), state)]
    v = deref(I, state, a)
    if v[0] == "coll":
        e = v[1]
        rs = instantiate(I, state, frame, bi, ("av", e), span)
        return rs
    return [(TOP, state)]


MODELS["<std::vec::Vec<T, A> as std::ops::Index<I>>::index"] = index_common
MODELS["<std::vec::Vec<T, A> as std::ops::IndexMut<I>>::index_mut"] = index_common


# ---------------------------------------------------------------------------------------------
# iterators

@model("core::slice::<impl [T]>::iter", "core::slice::<impl [T]>::iter_mut")
def m_slice_iter(I, state, frame, bi, t, args, span):
    a = args[0]
    L = I.layout
    ne = (lambda tm: ("fresh", tm)) if getattr(I.cfg, "nonempty_jobs", False) else (lambda tm: tm)   # case 'there is at least one job'
    if is_self_field(I, a, L.jobs_field):
        return [(("iter", ne(("jobs",))), state)]
    if is_self_field(I, a, L.topo_field) or (a[0] == "ref" and a[1] == ("self",) and a[2][:1] == (("f", L.topo_field),)):
        return [(("iter", ne(("av", key(None, ["topo", "alljobs"])))), state)]
    v = deref(I, state, a)
    if v[0] == "coll":
        return [(("iter", total_tmpl(v) or ("av", v[1])), state)]
    ty = I.operand_ty(frame, t["args"][0])
    if ty is not None and "ref" in ty and ty["ref"]["s"] in ("[usize]", "std::vec::Vec<usize>"):
        return [(("iter", ("av", key(None, ["usizevec"]))), state)]
    return [(("iter", ("av", TOP)), state)]


@model("std::iter::IntoIterator::into_iter", "<I as std::iter::IntoIterator>::into_iter",
       "<std::vec::Vec<T, A> as std::iter::IntoIterator>::into_iter")
def m_into_iter(I, state, frame, bi, t, args, span):
    a = args[0]
    v = deref(I, state, a) if a[0] == "ref" else a
    if v[0] == "iter":
        return [(v, state)]
    if v[0] == "coll":
        if v[2] is not None:
            return [(("iter", ("pairs", v[2], v[1], v[3])), state)]
        return [(("iter", total_tmpl(v) or ("av", v[1])), state)]
    if v[0] == "adt" and v[1] in ("std::ops::Range", "core::ops::Range"):
        fs = adt_variants(v)[0]
        tag = "alljobs" if (len(fs) > 1 and fs[1][0] == "int" and len(fs[1]) > 2 and fs[1][2] == "jobs_len") else "range"
        tm = ("av", key(None, [tag]))
        return [(("iter", ("fresh", tm) if (tag == "alljobs" and getattr(I.cfg, "nonempty_jobs", False)) else tm), state)]
    if a[0] == "ref" and is_self_field(I, a, I.layout.jobs_field):
        return [(("iter", ("fresh", ("jobs",)) if getattr(I.cfg, "nonempty_jobs", False) else ("jobs",)), state)]
    return [(("iter", ("av", TOP)), state)]


@model("std::iter::Iterator::enumerate")
def m_enumerate(I, state, frame, bi, t, args, span):
    v = args[0]
    if v[0] == "iter":
        return [(("iter", ("enum", v[1])), state)]
    return [(("iter", ("av", TOP)), state)]


@model("std::iter::Iterator::rev", "std::iter::Iterator::skip", "std::iter::Iterator::take", "std::iter::Iterator::peekable")
def m_iter_id(I, state, frame, bi, t, args, span):
    return [(args[0], state)]


@model("std::iter::Iterator::filter")
def m_filter(I, state, frame, bi, t, args, span):
    v = args[0]
    if v[0] == "iter":
        return [(("iter", ("filter", v[1], args[1])), state)]
    return [(("iter", ("av", TOP)), state)]


@model("std::iter::Iterator::map")
def m_map(I, state, frame, bi, t, args, span):
    v = args[0]
    if v[0] == "iter":
        return [(("iter", ("map", v[1], args[1])), state)]
    return [(("iter", ("av", TOP)), state)]


@model("std::iter::Iterator::filter_map")
def m_filter_map(I, state, frame, bi, t, args, span):
    v = args[0]
    if v[0] == "iter":
        return [(("iter", ("filter_map", v[1], args[1])), state)]
    return [(("iter", ("av", TOP)), state)]


@model("std::iter::Iterator::count", "<std::slice::Iter<'a, T> as std::iter::Iterator>::position", "std::iter::Iterator::position")
def m_count(I, state, frame, bi, t, args, span):
    return [(TOP, state)]


def instantiate(I, state, frame, bi, tmpl, span, anonymous=False, tag=""):
    """Produce the element(s) an iterator with template `tmpl` can yield: [(elem AV, state)]."""
    L = I.layout
    k = tmpl[0]
    if k == "fresh":
        return instantiate(I, state, frame, bi, tmpl[1], span, anonymous, tag)
    if k == "jobs":
        sym = fresh_sym(I, frame, bi, "jobs" + tag)
        kav = bind_key(I, state, sym, ["alljobs"])
        return [(ref(("job", sym, kav[2], None), ()), state)]
    if k == "enum":
        inner = tmpl[1]
        if inner[0] == "jobs":
            sym = fresh_sym(I, frame, bi, "jobs" + tag)
            kav = bind_key(I, state, sym, ["alljobs"])
            return [(adt("tuple", {0: (kav, ref(("job", sym, kav[2], None), ()))}), state)]
        out = []
        for (e, st) in instantiate(I, state, frame, bi, inner, span, anonymous, tag):
            out.append((adt("tuple", {0: (("int", None), e)}), st))
        return out
    if k == "av":
        e = tmpl[1]
        if e is None:
            return []
        return [(rebind(I, state, frame, bi, e, anonymous, tag), state)]
    if k == "nbr":
        sym = fresh_sym(I, frame, bi, "nbr" + tag)
        roles = [("nbr", tmpl[1], tmpl[3])]
        if anonymous:
            return [(key(None, roles), state)]
        return [(bind_key(I, state, sym, roles), state)]
    if k == "nbredges":
        out = []
        centre, inner = tmpl[1], tmpl[2]
        for (nk, st) in instantiate(I, state, frame, bi, inner, span, anonymous, tag):
            ck = centre if centre is not None else TOP
            if inner[3] == "Incoming":
                a_, b_ = nk, ck
            else:
                a_, b_ = ck, nk
            er = edge_root(a_, b_) if (a_[0] == "key" and b_[0] == "key") else None
            w = ref(er, ()) if (er is not None and er[1] is not None and er[2] is not None) else TOP
            out.append((adt("tuple", {0: (a_, b_, w)}), st))
        return out
    if k == "alledges":
        sa = fresh_sym(I, frame, bi, "ea" + tag)
        sb = fresh_sym(I, frame, bi, "eb" + tag)
        ka = bind_key(I, state, sa, ["edge_a", "alljobs"])
        kb = bind_key(I, state, sb, ["edge_b", "alljobs", ("nbr", sa, "Outgoing")])
        return [(adt("tuple", {0: (ka, kb, ref(("edge", sa, sb), ()))}), state)]
    if k == "pairs":
        kk = tmpl[1] if tmpl[1] is not None else TOP
        vv = tmpl[2] if tmpl[2] is not None else TOP
        return [(adt("tuple", {0: (kk, vv)}), state)]
    if k == "drain_signals":
        sym = fresh_sym(I, frame, bi, "sig")
        kav = bind_key(I, state, sym, ["sigtarget"])
        kinds = I.cfg.drain_kinds if I.cfg.drain_kinds is not None else I.uni.full(L.signalkind)
        fs = [TOP] * len(I.facts.adts[L.signal_ty]["variants"][0]["fields"])
        fs[L.sig_kind_field] = kinds
        fs[L.sig_node_field] = kav
        return [(adt(L.signal_ty, {0: tuple(fs)}), state)]
    if k == "filter":
        out = []
        for (e, st) in instantiate(I, state, frame, bi, tmpl[1], span, False, tag + "f"):
            root = ("filtelem", frame.fid, bi, tag)
            if e[0] == "key" and e[1] is not None:
                # predicate summary of the closure: evaluate it once per concrete state of the element
                jr = ("job", e[1], e[2], e[3])
                cell = I.load_root(st, jr)
                cur = av_get(cell, (("f", L.state_field),), I.uni)
                keep = set()
                merged = None
                from interp import join_state
                if cur is not None and cur[0] == "fin":
                    for c in cur[2]:
                        s1 = st.copy()
                        s1.heap[jr[:2]] = av_set(cell, (("f", L.state_field),), fin(L.jobstate, [c]), I.uni)
                        s1.heap[root] = e
                        may_true = False
                        for (rv, s2) in call_closure(I, s1, frame, bi, tmpl[2], [ref(root, ())], span):
                            if rv[0] == "fin" and rv[1] == BOOL and (1,) not in rv[2]:
                                continue
                            may_true = True
                            merged = join_state(merged, s2)
                        if may_true:
                            keep.add(c)
                    if keep != set(cur[2]):
                        I.filter_may_drop = True
                    if not keep or merged is None:
                        continue
                    cons = fin(L.jobstate, keep)
                    e2 = ("key", e[1], e[2], cons if e[3] is None else fin(L.jobstate, keep & e[3][2]))
                    if anonymous:
                        e2 = anonymise(e2)
                    out.append((e2, merged))
                    continue
            st.heap[root] = e
            mt = mf = False
            for (rv, s2) in call_closure(I, st, frame, bi, tmpl[2], [ref(root, ())], span):
                if rv[0] == "fin" and rv[1] == BOOL:
                    mt = mt or (1,) in rv[2]
                    mf = mf or (0,) in rv[2]
                    if (1,) not in rv[2]:
                        continue
                    if I.apply_links(s2, rv[3], 1) is False:
                        continue
                else:
                    mt = mf = True
                out.append((anonymise(e) if anonymous else e, s2))
            if mf:
                I.filter_may_drop = True
            I.rec.put("filter_result", I.sitekey(frame, bi, -1, hash(tag) % 1000),
                      dict(fn=frame.body.name, bb=bi, span=span, may_true=mt, may_false=mf, stack=frame.stack))
        return out
    if k == "map":
        out = []
        for (e, st) in instantiate(I, state, frame, bi, tmpl[1], span, False, tag + "m"):
            for (rv, s2) in call_closure(I, st, frame, bi, tmpl[2], [e], span):
                out.append((anonymise(rv) if anonymous else rv, s2))
        return out
    if k == "zip":
        out = []
        for (e1, st) in instantiate(I, state, frame, bi, tmpl[1], span, anonymous, tag + "za"):
            for (e2, s2) in instantiate(I, st, frame, bi, tmpl[2], span, anonymous, tag + "zb"):
                out.append((adt("tuple", {0: (e1, e2)}), s2))
        return out
    if k == "filter_map":
        out = []
        for (e, st) in instantiate(I, state, frame, bi, tmpl[1], span, False, tag + "fm"):
            for (rv, s2) in call_closure(I, st, frame, bi, tmpl[2], [e], span):
                if rv[0] == "adt" and rv[1] == OPTION:
                    vs = adt_variants(rv)
                    if 1 in vs:
                        out.append((anonymise(vs[1][0]) if anonymous else vs[1][0], s2))
                else:
                    out.append((TOP, s2))
        return out
    return [(TOP, state)]


def tmpl_nonempty(tm):
    """is the iterator known to yield at least once?  ('fresh' at the bottom of a chain of cardinality-preserving adaptors)"""
    while isinstance(tm, tuple) and tm:
        if tm[0] == "fresh":
            return True
        if tm[0] in ("map", "enum") and len(tm) > 1:
            tm = tm[1]
            continue
        return False
    return False


def tmpl_stepped(tm):
    """the same iterator after its first step: the 'fresh' marker is gone"""
    if isinstance(tm, tuple) and tm:
        if tm[0] == "fresh":
            return tm[1]
        if tm[0] in ("map", "enum") and len(tm) > 1:
            return (tm[0], tmpl_stepped(tm[1])) + tuple(tm[2:])
    return tm


def tmpl_fresh_filtered(tm):
    """a non-empty, unstepped source below at least one filter (and cardinality-preserving adaptors)"""
    seen_filter = False
    while isinstance(tm, tuple) and tm:
        if tm[0] == "fresh":
            return seen_filter
        if tm[0] == "filter" and len(tm) > 1:
            seen_filter = True
            tm = tm[1]
            continue
        if tm[0] in ("map", "enum") and len(tm) > 1:
            tm = tm[1]
            continue
        return False
    return False


def tmpl_stepped_deep(tm):
    if isinstance(tm, tuple) and tm:
        if tm[0] == "fresh":
            return tm[1]
        if tm[0] in ("map", "enum", "filter") and len(tm) > 1:
            return (tm[0], tmpl_stepped_deep(tm[1])) + tuple(tm[2:])
    return tm


def rebind(I, state, frame, bi, e, anonymous, tag=""):
    """an element taken out of a collection: anonymous keys get a fresh identity"""
    if e[0] == "key" and e[1] is None:
        if anonymous:
            return e
        sym = fresh_sym(I, frame, bi, "el" + tag)
        return bind_key(I, state, sym, e[2], e[3])
    if e[0] == "adt":
        return adt(e[1], dict((v, tuple(rebind(I, state, frame, bi, f, anonymous, tag + str(i)) for i, f in enumerate(fs)))
                              for v, fs in e[2]))
    return e


def next_common(I, state, frame, bi, t, args, span):
    a = args[0]
    it = deref(I, state, a)
    res = []
    none_state = state.copy()
    # the element keys bound at this site are dead once the iterator is exhausted
    for hk in [hk for hk in none_state.heap
               if hk[0] == "job" and isinstance(hk[1], tuple) and hk[1][:3] == ("b", frame.fid, bi)]:
        none_state.heap[hk] = DEAD
    if isinstance(none_state.token, tuple) and none_state.token[:3] == ("stepped", frame.fid, bi):
        none_state.token = None          # the peeled loop is left: its paths are joined with the rest again
    res.append((adt(OPTION, {0: ()}), none_state))
    if it[0] == "iter" and it[1] and tmpl_nonempty(it[1]) and a[0] == "ref" and a[1][0] == "local":
        # first step of an iterator known to be non-empty: it yields; the iterator is stepped (no longer fresh)
        res = []
        st0 = state.copy()
        cur = I.load_root(st0, a[1])
        stepped = ("iter", tmpl_stepped(it[1]))
        I.store_root(st0, a[1], av_set(cur, a[2], stepped, I.uni) if a[2] else stepped)
        if st0.token is None:
            # loop peeling: what happens from the first iteration on is kept apart from the state in which the loop was entered
            st0.token = ("stepped", frame.fid, bi)
        for (e, st) in instantiate(I, st0, frame, bi, stepped[1], span):
            res.append((some(e), st))
        return res
    if it[0] == "iter" and it[1] and tmpl_fresh_filtered(it[1]) and a[0] == "ref" and a[1][0] == "local":
        # first step of a filter over a source known to be non-empty: if the predicate cannot reject any element the source can
        # yield (in this partition), the step yields
        st0 = state.copy()
        cur = I.load_root(st0, a[1])
        stepped = ("iter", tmpl_stepped_deep(it[1]))
        I.store_root(st0, a[1], av_set(cur, a[2], stepped, I.uni) if a[2] else stepped)
        I.filter_may_drop = False
        yielded = [(some(e), st) for (e, st) in instantiate(I, st0, frame, bi, stepped[1], span)]
        if yielded and not I.filter_may_drop:
            return yielded
        return res + yielded
    if it[0] == "iter":
        for (e, st) in instantiate(I, state.copy(), frame, bi, it[1], span):
            res.append((some(e), st))
    else:
        res.append((some(TOP), state.copy()))
    return res


for _n in ["std::iter::Iterator::next"]:
    MODELS[_n] = next_common


@model("std::iter::Iterator::collect")
def m_collect(I, state, frame, bi, t, args, span):
    it = args[0]
    if it[0] != "iter":
        return [(coll(TOP), state)]
    tmpl = it[1]
    tags = set()
    x = tmpl
    while x[0] in ("filter", "map", "filter_map", "enum"):
        if x[0] == "filter" and x[1][0] == "pairs" and "history_clone" in x[1][3]:
            tags.add("history_filtered")
            c = x[2]
            if c[0] == "adt":
                tags.add(("filter_closure", c[1]))
        x = x[1]
    if tmpl[0] == "pairs":
        tags |= set(tmpl[3])
    # an unfiltered collection of a job's neighbours mirrors the neighbourhood: a later loop over it is the for-all-neighbours loop
    x = tmpl
    unfiltered = True
    while isinstance(x, tuple) and x and x[0] in ("filter", "map", "filter_map", "enum", "fresh"):
        unfiltered = unfiltered and x[0] in ("enum", "fresh")
        x = x[1]
    if unfiltered and isinstance(x, tuple) and x and x[0] in ("nbr", "nbredges") and not os.environ.get("NO_TOTAL"):
        tags.add(("total", tmpl))
    elem = None
    kk = None
    st0 = state.copy()
    for (e, _s) in instantiate(I, st0, frame, bi, tmpl, span, anonymous=True):
        e = anonymise(e)
        if e[0] == "adt" and e[1] == "tuple" and ("history_filtered" in tags or "history_clone" in tags):
            fs = adt_variants(e)[0]
            kk = join(kk, fs[0])
            elem = join(elem, fs[1])
        else:
            elem = join(elem, e)
    I.rec.put("collect", I.sitekey(frame, bi, -1),
              dict(fn=frame.body.name, bb=bi, span=span, tags=frozenset(tags), stack=frame.stack))
    dty = frame.body.locals[t["dest"]["l"]]["s"] if not t["dest"]["p"] else ""
    if dty.startswith("std::collections::HashMap<") and kk is None and elem is not None and elem[0] == "adt" and elem[1] == "tuple":
        fs = adt_variants(elem)[0]
        if len(fs) == 2:
            kk, elem = fs[0], fs[1]
            filtered = False
            x = tmpl
            while x[0] in ("filter", "map", "filter_map", "enum"):
                filtered = filtered or x[0] in ("filter", "filter_map")
                x = x[1]
            I.rec.put("map_op", I.sitekey(frame, bi, -2),
                      dict(fn=frame.body.name, bb=bi, span=span, op="insert", target=("local", None, frozenset(tags)), key=kk, value=elem,
                           stored_keys=None, stack=frame.stack, collected=True, filtered=filtered, **ctx(I, state)))
    return [(("coll", elem, kk, frozenset(tags)), state)]


# ---------------------------------------------------------------------------------------------
# petgraph

VNAMES = {}


def direction_of(I, av):
    if av[0] == "adt" and av[1] == "petgraph::Direction":
        vs = list(adt_variants(av))
        if len(vs) == 1:
            a = I.facts  # vname lookup through the recorded aggregate names
            return VNAMES.get(("petgraph::Direction", vs[0]), str(vs[0]))
    return None


@model("petgraph::graphmap::GraphMap::<N, E, Ty>::neighbors_directed")
def m_neighbors(I, state, frame, bi, t, args, span):
    k = args[1]
    d = direction_of(I, args[2])
    I.rec.put("neighbors", I.sitekey(frame, bi, -1),
              dict(fn=frame.body.name, bb=bi, span=span, key=(k[1], k[2]) if k[0] == "key" else (None, frozenset()), dir=d,
                   stack=frame.stack))
    tm = ("nbr", k[1] if k[0] == "key" else None, k[2] if k[0] == "key" else frozenset(), d)
    if getattr(I.cfg, "nonempty_nbrs", False):
        tm = ("fresh", tm)       # case 'the job has at least one neighbour' (the uniform-neighbourhood partition)
    return [(("iter", tm), state)]


@model("petgraph::graphmap::GraphMap::<N, E, Ty>::edges_directed", "petgraph::graphmap::GraphMap::<N, E, Ty>::edges")
def m_edges_directed(I, state, frame, bi, t, args, span):
    """(source, target, &weight) for every edge at the node: the neighbour enumeration with the edge attached"""
    k = args[1]
    d = direction_of(I, args[2]) if len(args) > 2 else "Outgoing"
    I.rec.put("neighbors", I.sitekey(frame, bi, -1),
              dict(fn=frame.body.name, bb=bi, span=span, key=(k[1], k[2]) if k[0] == "key" else (None, frozenset()), dir=d,
                   stack=frame.stack))
    tm = ("nbredges", k if k[0] == "key" else None, ("nbr", k[1] if k[0] == "key" else None, k[2] if k[0] == "key" else frozenset(), d))
    if getattr(I.cfg, "nonempty_nbrs", False):
        tm = ("fresh", tm)
    return [(("iter", tm), state)]


@model("petgraph::graphmap::GraphMap::<N, E, Ty>::neighbors")
def m_neighbors_out(I, state, frame, bi, t, args, span):
    k = args[1]
    return [(("iter", ("nbr", k[1] if k[0] == "key" else None, k[2] if k[0] == "key" else frozenset(), "Outgoing")), state)]


@model("petgraph::graphmap::GraphMap::<N, E, Ty>::nodes")
def m_nodes(I, state, frame, bi, t, args, span):
    return [(("iter", ("av", key(None, ["alljobs", "dagnodes"]))), state)]


@model("petgraph::graphmap::GraphMap::<N, E, Ty>::all_edges")
def m_all_edges(I, state, frame, bi, t, args, span):
    return [(("iter", ("alledges",)), state)]


def edge_root(a, b):
    return ("edge", a[1] if a[0] == "key" else None, b[1] if b[0] == "key" else None)


@model("petgraph::graphmap::GraphMap::<N, E, Ty>::edge_weight", "petgraph::graphmap::GraphMap::<N, E, Ty>::edge_weight_mut")
def m_edge_weight(I, state, frame, bi, t, args, span):
    a, b = args[1], args[2]
    er = edge_root(a, b)
    I.rec.put("edge_weight", I.sitekey(frame, bi, -1),
              dict(fn=frame.body.name, bb=bi, span=span, a=(a[1], a[2]) if a[0] == "key" else (None, frozenset()),
                   b=(b[1], b[2]) if b[0] == "key" else (None, frozenset()), stack=frame.stack))
    # the edge certainly exists when one key was obtained as a neighbour of the other
    certain = False
    if a[0] == "key" and b[0] == "key":
        def unvia(roles):
            for r in roles:
                if isinstance(r, tuple) and r[0] == "via":
                    for x in r[1]:
                        yield x
                else:
                    yield r
        # (a key that went through a local collection has lost its binding but remembers which one it was)
        def syms_of(k_):
            return (set([k_[1]]) | set(r_[1] for r_ in k_[2] if isinstance(r_, tuple) and r_[0] == "was")) - {None}
        sa_, sb_ = syms_of(a), syms_of(b)
        for r in unvia(a[2]):
            if isinstance(r, tuple) and r[0] == "nbr" and r[1] in sb_ and r[2] == "Incoming":
                certain = True
        for r in unvia(b[2]):
            if isinstance(r, tuple) and r[0] == "nbr" and r[1] in sa_ and r[2] == "Outgoing":
                certain = True
        if "edge_b" in role_tags(b) and "edge_a" in role_tags(a):
            certain = True
    if er[1] is None or er[2] is None:
        return [((some(TOP) if certain else opt(TOP)), state)]
    return [((some(ref(er, ())) if certain else opt(ref(er, ()))), state)]


@model("petgraph::graphmap::GraphMap::<N, E, Ty>::remove_node")
def m_remove_node(I, state, frame, bi, t, args, span):
    k = args[1]
    I.rec.put("dag_remove_node", I.sitekey(frame, bi, -1),
              dict(fn=frame.body.name, bb=bi, span=span, key=(k[1], k[2]) if k[0] == "key" else (None, frozenset()),
                   stack=frame.stack, **ctx(I, state)))
    return [(BOOL_TOP, state)]


@model("petgraph::graphmap::GraphMap::<N, E, Ty>::add_edge")
def m_add_edge(I, state, frame, bi, t, args, span):
    I.rec.put("add_edge", I.sitekey(frame, bi, -1),
              dict(fn=frame.body.name, bb=bi, span=span, weight=args[3] if len(args) > 3 else None, stack=frame.stack))
    return [(TOP, state)]


@model("petgraph::graphmap::GraphMap::<N, E, Ty>::add_node",
       "petgraph::graphmap::GraphMap::<N, E, Ty>::new", "petgraph::algo::toposort",
       "petgraph::graphmap::GraphMap::<N, E, Ty>::contains_node")
def m_graph_misc(I, state, frame, bi, t, args, span):
    return [(TOP, state)]


@model("petgraph::graphmap::GraphMap::<N, E, Ty>::contains_edge")
def m_contains_edge(I, state, frame, bi, t, args, span):
    """the bool form of `edge_weight(a, b).is_some()`"""
    res = m_edge_weight(I, state, frame, bi, t, args, span)
    out = []
    for (rv, st) in res:
        vs = adt_variants(rv) if rv[0] == "adt" else {0: (), 1: ()}
        vals = ([True] if 1 in vs else []) + ([False] if 0 in vs else [])
        out.append((boolean(vals), st))
    return out


@model("std::option::Option::<T>::zip")
def m_opt_zip(I, state, frame, bi, t, args, span):
    a, b = args[0], args[1]
    va = adt_variants(a) if (a[0] == "adt" and a[1] == OPTION) else {0: (), 1: (TOP,)}
    vb = adt_variants(b) if (b[0] == "adt" and b[1] == OPTION) else {0: (), 1: (TOP,)}
    out = {}
    if 1 in va and 1 in vb:
        out[1] = (adt("tuple", {0: (va[1][0], vb[1][0])}),)
    if 0 in va or 0 in vb:
        out[0] = ()
    return [(adt(OPTION, out), state)]


# ---------------------------------------------------------------------------------------------
# comparisons

def eq_model(negate):
    def f(I, state, frame, bi, t, args, span):
        a, b = args[0], args[1]
        va, vb = deref(I, state, a), deref(I, state, b)
        if va[0] == "fin" and vb[0] == "fin" and va[1] == vb[1]:
            res = set()
            if va[2] & vb[2]:
                res.add(True)
            if len(va[2]) > 1 or len(vb[2]) > 1 or va[2] != vb[2]:
                res.add(False)
            links = []
            if len(vb[2]) == 1 and a[0] == "ref":
                full = frozenset(I.uni.fin[va[1]])
                links.append(((a[1], a[2]), "fin", vb[2], full - vb[2]))
            if len(va[2]) == 1 and b[0] == "ref":
                full = frozenset(I.uni.fin[va[1]])
                links.append(((b[1], b[2]), "fin", va[2], full - va[2]))
            if negate:
                res = set(not r for r in res)
                links = [(l[0], l[1], l[3], l[2]) for l in links]
            return [(("fin", BOOL, frozenset((1,) if r else (0,) for r in res), tuple(links)), state)]
        def strish(x):
            if x[0] == "str":
                return True
            if x[0] == "adt" and x[1] in (OPTION, "tuple"):
                return any(strish(f) for _v, fs in x[2] for f in fs)
            return False
        if strish(va) or strish(vb):
            I.rec.put("cmp", I.sitekey(frame, bi, -1),
                      dict(fn=frame.body.name, bb=bi, span=span, a=va, b=vb, negate=negate, stack=frame.stack, **ctx(I, state)))
        return [(BOOL_TOP, state)]
    return f


MODELS["std::cmp::PartialEq::eq"] = eq_model(False)
MODELS["std::cmp::PartialEq::ne"] = eq_model(True)
# a string literal in a pattern (`Some((id, ""))`) is lowered to a direct call of the impl
MODELS["core::str::traits::<impl std::cmp::PartialEq for str>::eq"] = MODELS["std::cmp::PartialEq::eq"]


# ---------------------------------------------------------------------------------------------
# strategy callbacks and unknown externals

def strategy_call(I, state, frame, bi, t, args, span, gen):
    method = gen.split("::")[-1]
    vals = [deref(I, state, a) for a in args[1:]]
    sk = I.sitekey(frame, bi, -1)
    ret_ty = frame.body.locals[t["dest"]["l"]]["s"] if not t["dest"]["p"] else ""
    rv = TOP
    if ret_ty == "bool":
        syms = tuple(sorted(set(str(v[1]) for v in vals if v[0] == "key" and v[1] is not None)))
        g = ("ghost", "strategy:" + method, (frame.fid, bi), syms)
        state.heap[g] = BOOL_TOP
        rv = ("fin", BOOL, BOOL_TOP[2], (((g, ()), "fin", frozenset([(1,)]), frozenset([(0,)])),))
    elif ret_ty == "std::string::String":
        k = vals[0] if vals else TOP
        rv = string([("strategy", method, k[1] if k[0] == "key" else None)])
    I.rec.put("strategy_call", sk,
              dict(fn=frame.body.name, bb=bi, span=span, method=method, args=tuple(vals), stack=frame.stack, **ctx(I, state)))
    return [(rv, state)]


PURE_PREFIXES = ("core::fmt::", "std::fmt::", "log::", "std::cmp::", "core::cmp::")


def default_external(I, state, frame, bi, t, args, span, name):
    st = state
    wrote = False
    for a, op in zip(args, t["args"]):
        ty = I.operand_ty(frame, op)
        if ty is not None and ty.get("mut") and a[0] == "ref":
            if a[1][0] == "job" or a[1] == ("self",):
                I.havoc_jobs(st)
                wrote = True
                if a[1] == ("self",) and a[2]:
                    I.rec.put("store_self", I.sitekey(frame, bi, -1),
                              dict(fn=frame.body.name, bb=bi, span=span, proj=a[2], value=TOP, old=None, stack=frame.stack, call="unmodelled " + name))
            elif a[1][0] == "local":
                cur = I.load_root(st, a[1])
                I.store_root(st, a[1], av_set(cur, a[2], TOP, I.uni) if a[2] else TOP)
    I.rec.note("unmodelled", name)
    if wrote:
        I.rec.note("imprecise", "unmodelled %s received &mut to engine state in %s" % (name, frame.body.name))
    return [(TOP, st)]


# ---------------------------------------------------------------------------------------------
# further iterator / option / collection models (idioms that behaviour-preserving refactorings introduce)

@model("std::iter::Iterator::copied", "std::iter::Iterator::cloned", "std::iter::Iterator::fuse", "std::iter::Iterator::by_ref")
def m_iter_copied(I, state, frame, bi, t, args, span):
    v = deref(I, state, args[0]) if args[0][0] == "ref" else args[0]
    if v[0] == "iter":
        return [(v, state)]
    return [(("iter", ("av", TOP)), state)]


def each_element(I, state, frame, bi, it, span):
    if it[0] == "iter":
        return instantiate(I, state.copy(), frame, bi, it[1], span)
    if it[0] == "coll":
        if total_tmpl(it) is not None:
            return instantiate(I, state.copy(), frame, bi, total_tmpl(it), span)
        return instantiate(I, state.copy(), frame, bi, ("av", it[1]), span) if it[1] is not None else []
    return [(TOP, state.copy())]


@model("std::iter::Iterator::for_each")
def m_for_each(I, state, frame, bi, t, args, span):
    from interp import join_state
    it = deref(I, state, args[0]) if args[0][0] == "ref" else args[0]
    merged = state.copy()
    filtered = it[0] == "iter" and template_filters(it[1])
    I.total_iter = getattr(I, "total_iter", 0) + (0 if filtered else 1)
    try:
        for (e, s1) in each_element(I, state, frame, bi, it, span):
            for (rv, s2) in call_closure(I, s1, frame, bi, args[1], [e], span):
                merged = join_state(merged, s2)
    finally:
        I.total_iter = getattr(I, "total_iter", 1) - (0 if filtered else 1)
    return [(TOP, merged)]


@model("std::iter::Iterator::find", "std::iter::Iterator::find_map")
def m_find(I, state, frame, bi, t, args, span):
    it = deref(I, state, args[0]) if args[0][0] == "ref" else args[0]
    res = [(adt(OPTION, {0: ()}), state.copy())]
    nonempty = it[0] == "iter" and tmpl_nonempty(it[1])
    mt = mf = False
    for (e, s1) in each_element(I, state, frame, bi, it, span):
        root = ("findelem", frame.fid, bi)
        s1.heap[root] = e
        for (rv, s2) in call_closure(I, s1, frame, bi, args[1], [ref(root, ())], span):
            if rv[0] == "fin" and rv[1] == BOOL:
                mt = mt or (1,) in rv[2]
                mf = mf or (0,) in rv[2]
                if (1,) not in rv[2]:
                    continue
                I.apply_links(s2, rv[3], 1)
                res.append((some(e), s2))
            elif rv[0] == "adt" and rv[1] == OPTION:
                vs = adt_variants(rv)
                if 1 in vs:
                    res.append((some(vs[1][0]), s2))
            else:
                mt = mf = True
                res.append((some(e), s2))
    I.rec.put("quantifier", I.sitekey(frame, bi, -1),
              dict(fn=frame.body.name, bb=bi, span=span, all=False, find=True, iter=it if it[0] == "iter" else None,
                   may_true=mt, may_false=mf, stack=frame.stack))
    if nonempty and not mf:
        res = res[1:]        # every element satisfies the predicate and there is at least one: the search succeeds
    return res


def m_all_any(is_all):
    def f(I, state, frame, bi, t, args, span):
        from interp import join_state
        it = deref(I, state, args[0]) if args[0][0] == "ref" else args[0]
        merged = state.copy()
        may_true = may_false = False
        for (e, s1) in each_element(I, state, frame, bi, it, span):
            for (rv, s2) in call_closure(I, s1, frame, bi, args[1], [e], span):
                merged = join_state(merged, s2)
                if rv[0] == "fin" and rv[1] == BOOL:
                    may_true = may_true or (1,) in rv[2]
                    may_false = may_false or (0,) in rv[2]
                else:
                    may_true = may_false = True
        I.rec.put("quantifier", I.sitekey(frame, bi, -1),
                  dict(fn=frame.body.name, bb=bi, span=span, all=is_all, iter=it if it[0] == "iter" else None,
                       may_true=may_true, may_false=may_false, stack=frame.stack))
        # `str::split` yields at least one piece: the quantifier is not vacuous
        nonempty = it[0] == "iter" and tmpl_nonempty(it[1])
        if is_all:
            vals = ([True] if (may_true or not nonempty) else []) + ([False] if may_false else [])
        else:
            vals = ([False] if (may_false or not nonempty) else []) + ([True] if may_true else [])
        return [(boolean(vals), merged)]
    return f


MODELS["std::iter::Iterator::all"] = m_all_any(True)
MODELS["std::iter::Iterator::any"] = m_all_any(False)


@model("std::iter::Iterator::fold")
def m_fold(I, state, frame, bi, t, args, span):
    """acc = init; for e in it { acc = f(acc, e) }: least fixpoint of the accumulator over the (summarised) element"""
    from interp import join_state
    it = deref(I, state, args[0]) if args[0][0] == "ref" else args[0]
    acc = args[1]
    st = state
    for _round in range(6):
        new_acc = acc
        merged = st
        for (e, s1) in each_element(I, st, frame, bi, it, span):
            for (rv, s2) in call_closure(I, s1, frame, bi, args[2], [acc, e], span):
                new_acc = join(new_acc, rv)
                merged = join_state(merged, s2)
        st = merged
        if new_acc == acc:
            break
        acc = new_acc
    else:
        acc = TOP
    return [(acc, st)]


@model("std::iter::Iterator::flat_map")
def m_flat_map(I, state, frame, bi, t, args, span):
    it = args[0]
    elem = None
    for (e, s1) in each_element(I, state, frame, bi, it, span):
        for (rv, s2) in call_closure(I, s1, frame, bi, args[1], [e], span):
            inner = rv
            for (e2, _s) in each_element(I, s2, frame, bi, inner, span) if inner[0] in ("iter", "coll") else [(TOP, s2)]:
                elem = join(elem, anonymise(e2))
    return [(("iter", ("av", elem)), state)]


@model("std::iter::Iterator::chain")
def m_chain(I, state, frame, bi, t, args, span):
    elem = None
    for a in args[:2]:
        v = deref(I, state, a) if a[0] == "ref" else a
        for (e, _s) in each_element(I, state, frame, bi, v, span):
            elem = join(elem, anonymise(e))
    return [(("iter", ("av", elem)), state)]


@model("std::iter::Iterator::last", "std::iter::Iterator::max", "std::iter::Iterator::min", "std::iter::Iterator::nth")
def m_iter_pick(I, state, frame, bi, t, args, span):
    it = deref(I, state, args[0]) if args[0][0] == "ref" else args[0]
    res = [(adt(OPTION, {0: ()}), state.copy())]
    for (e, s1) in each_element(I, state, frame, bi, it, span):
        res.append((some(e), s1))
    return res


@model("std::collections::HashMap::<K, V, S, A>::retain")
def m_map_retain(I, state, frame, bi, t, args, span):
    from interp import join_state
    a = args[0]
    v = deref(I, state, a)
    st = state
    if v[0] == "coll":
        kk = v[2] if v[2] is not None else TOP
        vv = v[1] if v[1] is not None else TOP
        s1 = state.copy()
        s1.heap[("retk", frame.fid, bi)] = kk
        s1.heap[("retv", frame.fid, bi)] = vv
        merged = None
        for (rv, s2) in call_closure(I, s1, frame, bi, args[1], [ref(("retk", frame.fid, bi), ()), ref(("retv", frame.fid, bi), ())], span):
            merged = join_state(merged, s2)
        st = merged if merged is not None else state
        tags = set(v[3])
        I.rec.put("retain", I.sitekey(frame, bi, -2),
                  dict(fn=frame.body.name, bb=bi, span=span, stack=frame.stack, form="map_retain", tags=frozenset(v[3])))
        if "history_clone" in tags:
            tags.add("history_filtered")
            c = deref(I, st, args[1]) if args[1][0] == "ref" else args[1]
            if c[0] == "adt":
                tags.add(("filter_closure", c[1]))
            I.rec.put("collect", I.sitekey(frame, bi, -1),
                      dict(fn=frame.body.name, bb=bi, span=span, tags=frozenset(tags), stack=frame.stack))
        if a[0] == "ref":
            new = ("coll", v[1], v[2], frozenset(tags))
            cur = I.load_root(st, a[1])
            I.store_root(st, a[1], av_set(cur, a[2], new, I.uni) if a[2] else new)
    return [(TOP, st)]


@model("std::option::Option::<T>::map_or")
def m_opt_map_or(I, state, frame, bi, t, args, span):
    o = args[0]
    res = []
    vs = adt_variants(o) if (o[0] == "adt" and o[1] == OPTION) else {0: (), 1: (TOP,)}
    if 0 in vs:
        res.append((args[1], state.copy()))
    if 1 in vs:
        for (rv, st) in call_closure(I, state.copy(), frame, bi, args[2], [vs[1][0]], span):
            res.append((rv, st))
    return res


@model("std::option::Option::<T>::map_or_else")
def m_opt_map_or_else(I, state, frame, bi, t, args, span):
    o = args[0]
    res = []
    vs = adt_variants(o) if (o[0] == "adt" and o[1] == OPTION) else {0: (), 1: (TOP,)}
    if 0 in vs:
        res.extend(call_closure(I, state.copy(), frame, bi, args[1], [], span))
    if 1 in vs:
        res.extend(call_closure(I, state.copy(), frame, bi, args[2], [vs[1][0]], span))
    return res


@model("std::option::Option::<T>::unwrap_or", "std::option::Option::<T>::unwrap_or_default")
def m_opt_unwrap_or(I, state, frame, bi, t, args, span):
    o = args[0]
    vs = adt_variants(o) if (o[0] == "adt" and o[1] == OPTION) else {0: (), 1: (TOP,)}
    d = args[1] if len(args) > 1 else TOP
    res = []
    if 0 in vs:
        res.append((d, state.copy()))
    if 1 in vs:
        res.append((vs[1][0], state.copy()))
    if len(res) == 2 and state.token is None and d[0] == "adt" and d[1] == "tuple":
        # a tuple default: keep the two alternatives apart (the components are correlated: `split_once(..).unwrap_or((s, ""))`)
        for i_, (_rv, st_) in enumerate(res):
            st_.token = ("alt", frame.fid, bi, i_)
    return res


@model("std::option::Option::<T>::unwrap_or_else")
def m_opt_unwrap_or_else(I, state, frame, bi, t, args, span):
    o = args[0]
    vs = adt_variants(o) if (o[0] == "adt" and o[1] == OPTION) else {0: (), 1: (TOP,)}
    res = []
    if 0 in vs:
        res.extend(call_closure(I, state.copy(), frame, bi, args[1], [], span))
    if 1 in vs:
        res.append((vs[1][0], state.copy()))
    return res


@model("std::option::Option::<T>::and_then")
def m_opt_and_then(I, state, frame, bi, t, args, span):
    o = args[0]
    vs = adt_variants(o) if (o[0] == "adt" and o[1] == OPTION) else {0: (), 1: (TOP,)}
    res = []
    if 0 in vs:
        res.append((adt(OPTION, {0: ()}), state.copy()))
    if 1 in vs:
        res.extend(call_closure(I, state.copy(), frame, bi, args[1], [vs[1][0]], span))
    return res


@model("std::option::Option::<T>::or_else")
def m_opt_or_else(I, state, frame, bi, t, args, span):
    o = args[0]
    vs = adt_variants(o) if (o[0] == "adt" and o[1] == OPTION) else {0: (), 1: (TOP,)}
    res = []
    if 1 in vs:
        res.append((some(vs[1][0]), state.copy()))
    if 0 in vs:
        res.extend(call_closure(I, state.copy(), frame, bi, args[1], [], span))
    return res


@model("std::option::Option::<T>::or", "std::option::Option::<T>::xor")
def m_opt_or(I, state, frame, bi, t, args, span):
    o = args[0]
    vs = adt_variants(o) if (o[0] == "adt" and o[1] == OPTION) else {0: (), 1: (TOP,)}
    res = []
    if 1 in vs:
        res.append((some(vs[1][0]), state.copy()))
    if 0 in vs:
        res.append((args[1], state.copy()))
    return res


@model("std::option::Option::<T>::and")
def m_opt_and(I, state, frame, bi, t, args, span):
    o = args[0]
    vs = adt_variants(o) if (o[0] == "adt" and o[1] == OPTION) else {0: (), 1: (TOP,)}
    res = []
    if 0 in vs:
        res.append((adt(OPTION, {0: ()}), state.copy()))
    if 1 in vs:
        res.append((args[1], state.copy()))
    return res


@model("std::option::Option::<T>::copied", "std::option::Option::<T>::cloned", "std::option::Option::<T>::as_deref",
       "std::option::Option::<T>::as_deref_mut")
def m_opt_copied(I, state, frame, bi, t, args, span):
    o = deref(I, state, args[0]) if args[0][0] == "ref" else args[0]
    if o[0] == "adt" and o[1] == OPTION:
        vs = adt_variants(o)
        out = {}
        if 0 in vs:
            out[0] = ()
        if 1 in vs:
            p_ = vs[1][0]
            out[1] = (deref(I, state, p_) if p_[0] == "ref" else p_,)
        return [(adt(OPTION, out), state)]
    return [(opt(TOP), state)]


@model("std::option::Option::<T>::flatten")
def m_opt_flatten(I, state, frame, bi, t, args, span):
    o = args[0]
    if o[0] == "adt" and o[1] == OPTION:
        vs = adt_variants(o)
        res = []
        if 0 in vs:
            res.append((adt(OPTION, {0: ()}), state.copy()))
        if 1 in vs:
            res.append((vs[1][0] if (vs[1][0][0] == "adt" and vs[1][0][1] == OPTION) else opt(TOP), state.copy()))
        return res
    return [(opt(TOP), state)]


@model("std::option::Option::<T>::ok_or")
def m_opt_ok_or(I, state, frame, bi, t, args, span):
    o = args[0]
    vs = adt_variants(o) if (o[0] == "adt" and o[1] == OPTION) else {0: (), 1: (TOP,)}
    res = []
    if 1 in vs:
        res.append((ok(vs[1][0]), state.copy()))
    if 0 in vs:
        res.append((err(args[1]), state.copy()))
    return res


@model("std::option::Option::<T>::filter", "std::option::Option::<T>::is_some_and", "std::option::Option::<T>::is_none_or")
def m_opt_filter(I, state, frame, bi, t, args, span):
    from mir import callee_of
    nm = callee_of(t)[0].split("::")[-1] if "f" in t and "fn" in t["f"] else "filter"
    o = args[0]
    vs = adt_variants(o) if (o[0] == "adt" and o[1] == OPTION) else {0: (), 1: (TOP,)}
    res = []
    if nm == "filter":
        none_state = state.copy()
        may_none = 0 in vs
        if 1 in vs:
            root = ("optf", frame.fid, bi)
            s1 = state.copy()
            s1.heap[root] = vs[1][0]
            for (rv, s2) in call_closure(I, s1, frame, bi, args[1], [ref(root, ())], span):
                if not (rv[0] == "fin" and rv[1] == BOOL and (0,) not in rv[2]):
                    may_none = True       # the predicate can answer false
                if not (rv[0] == "fin" and rv[1] == BOOL and (1,) not in rv[2]):
                    # kept: the predicate answered true (refine what it was computed from, e.g. a strategy answer)
                    if rv[0] == "fin" and rv[1] == BOOL and len(rv) > 3 and rv[3]:
                        if I.apply_links(s2, rv[3], 1) is False:
                            continue
                    res.append((some(vs[1][0]), s2))
        if may_none:
            res.insert(0, (adt(OPTION, {0: ()}), none_state))
        return res
    if 0 in vs:
        res.append((FALSE if nm == "is_some_and" else TRUE, state.copy()))
    if 1 in vs:
        for (rv, s2) in call_closure(I, state.copy(), frame, bi, args[1], [vs[1][0]], span):
            res.append((strip_links(rv) if rv[0] == "fin" else BOOL_TOP, s2))
    return res


@model("std::vec::from_elem")
def m_from_elem(I, state, frame, bi, t, args, span):
    return [(coll(args[0] if args else TOP), state)]


@model("std::option::Option::<T>::take", "std::mem::take", "std::mem::replace")
def m_take(I, state, frame, bi, t, args, span):
    a = args[0]
    if a[0] == "ref":
        cur = av_get(I.load_root(state, a[1]), a[2], I.uni)
        new = args[1] if len(args) > 1 else None
        if new is None:
            if cur is not None and cur[0] == "coll":
                new = coll()
            elif cur is not None and cur[0] == "adt" and cur[1] == OPTION:
                new = adt(OPTION, {0: ()})
            else:
                new = TOP
        root_av = I.load_root(state, a[1])
        if is_self_field(I, a, I.layout.signals_field) and len(a[2]) == 1:
            # the whole batch of pending signals is taken out of the queue: same as draining it
            return [(("iter", ("drain_signals",)), state)]
        sf_ = self_field_of(I, a)
        if a[1] == ("self",) and sf_ is not None and sf_ != I.layout.jobs_field and len(a[2]) == 1:
            I.rec.put("store_self", I.sitekey(frame, bi, -1),
                      dict(fn=frame.body.name, bb=bi, span=span, proj=a[2], value=new, old=cur, stack=frame.stack, call="mem::take/replace"))
            I.store_root(state, a[1], av_set(root_av, a[2], new, I.uni))
        elif a[1][0] in ("job", "self"):
            I.rec.note("imprecise", "mem::take/replace on engine state in %s" % frame.body.name)
            I.havoc_jobs(state)
        else:
            I.store_root(state, a[1], av_set(root_av, a[2], new, I.uni) if a[2] else new)
        return [(cur if cur is not None else TOP, state)]
    return [(TOP, state)]


@model("std::option::Option::<T>::insert", "std::option::Option::<T>::replace")
def m_option_insert(I, state, frame, bi, t, args, span):
    """`place.insert(v)` / `place.replace(v)`: the assignment `place = Some(v)` (plus a reference to v / the old value)"""
    from mir import callee_of
    a = args[0]
    v = args[1] if len(args) > 1 else TOP
    new = adt(OPTION, {1: (v,)})
    is_replace = callee_of(t)[0].endswith("::replace")
    if a[0] != "ref":
        return [(TOP, state)]
    root, proj = a[1], a[2]
    cur = av_get(I.load_root(state, root), proj, I.uni)
    if root[0] == "job":
        I.record_job_store(state, frame, root, None, new, bi, -1, span, None, proj)
    elif root == ("self",) or root[0] in ("edge", "anyjob", "obj"):
        I.rec.note("imprecise", "Option::insert/replace on engine state in %s" % frame.body.name)
        I.havoc_jobs(state)
        return [(TOP, state)]
    old_root = I.load_root(state, root)
    I.store_root(state, root, av_set(old_root, proj, new, I.uni) if proj else new)
    I.drop_links(state, root[0] if root[0] != "local" else "local", root)
    if is_replace:
        return [(cur if cur is not None else TOP, state)]
    tmp = ("tmpopt", frame.fid, bi)
    state.heap[tmp] = v
    return [(ref(tmp, ()), state)]


@model("<std::option::Option<T> as std::ops::Try>::branch")
def m_try_branch_opt(I, state, frame, bi, t, args, span):
    o = args[0]
    vs = adt_variants(o) if (o[0] == "adt" and o[1] == OPTION) else {0: (), 1: (TOP,)}
    out = {}
    if 1 in vs:
        out[0] = (vs[1][0],)
    if 0 in vs:
        out[1] = (adt(OPTION, {0: ()}),)
    return [(adt(CFLOW, out), state)]


@model("<std::option::Option<T> as std::ops::FromResidual<std::option::Option<std::convert::Infallible>>>::from_residual")
def m_from_residual_opt(I, state, frame, bi, t, args, span):
    return [(adt(OPTION, {0: ()}), state)]


@model("std::vec::Vec::<T, A>::clear", "std::vec::Vec::<T, A>::truncate", "std::vec::Vec::<T, A>::reserve", "std::vec::Vec::<T, A>::sort",
       "std::vec::Vec::<T, A>::dedup", "std::collections::HashSet::<T, S, A>::clear", "std::collections::HashMap::<K, V, S, A>::clear",
       "core::slice::<impl [T]>::sort", "core::slice::<impl [T]>::reverse", "std::vec::Vec::<T, A>::shrink_to_fit",
       "std::collections::VecDeque::<T, A>::clear")
def m_coll_noop(I, state, frame, bi, t, args, span):
    a = args[0]
    sf = self_field_of(I, a)
    if sf is not None:
        I.rec.put("store_self", I.sitekey(frame, bi, -1),
                  dict(fn=frame.body.name, bb=bi, span=span, proj=a[2], value=TOP, old=None, stack=frame.stack, call="clear/sort"))
    return [(TOP, state)]


@model("std::vec::Vec::<T, A>::contains", "core::slice::<impl [T]>::contains", "std::collections::VecDeque::<T, A>::contains")
def m_coll_contains(I, state, frame, bi, t, args, span):
    return [(BOOL_TOP, state)]


@model("<std::collections::HashSet<T, S, A> as std::iter::Extend<T>>::extend", "<std::collections::HashMap<K, V, S, A> as std::iter::Extend<(K, V)>>::extend")
def m_extend2(I, state, frame, bi, t, args, span):
    a = args[0]
    src = deref(I, state, args[1])
    if src[0] == "coll" and a[0] == "ref" and self_field_of(I, a) is None:
        for tg in src[3]:
            if isinstance(tg, tuple) and tg and tg[0] == "pairs_of":
                # the deferred insertions of a Vec of (key, value) records (see m_push)
                for sk, pr in sorted(getattr(I, "pending_pairs", {}).get(tg[1], {}).items(), key=repr):
                    cur = av_get(I.load_root(state, a[1]), a[2], I.uni)
                    tags = cur[3] if (cur is not None and cur[0] == "coll") else frozenset()
                    I.rec.put("map_op", sk, dict(pr, op="insert", target=("local", a[1], tags), deferred=True,
                                                 stored_keys=cur[2] if (cur is not None and cur[0] == "coll") else None))
                    coll_add(I, state, a, pr["value"], pr["key"])
    return m_extend(I, state, frame, bi, t, args, span)


@model("std::collections::HashMap::<K, V, S, A>::values", "std::collections::HashMap::<K, V, S, A>::into_values")
def m_map_values(I, state, frame, bi, t, args, span):
    v = deref(I, state, args[0])
    if v[0] == "coll":
        return [(("iter", ("av", v[1])), state)]
    return [(("iter", ("av", TOP)), state)]


@model("std::collections::HashMap::<K, V, S, A>::iter", "std::collections::HashMap::<K, V, S, A>::iter_mut")
def m_map_iter(I, state, frame, bi, t, args, span):
    a = args[0]
    sf = self_field_of(I, a)
    if sf == I.layout.history_field:
        return [(("iter", ("pairs", string([("histkey",)]), string([("hist", frozenset([("anykey",)]))]), frozenset(["history_view"]))), state)]
    v = deref(I, state, a)
    if v[0] == "coll":
        return [(("iter", ("pairs", v[2], v[1], v[3])), state)]
    return [(("iter", ("av", TOP)), state)]
