"""A2/A3: protocol extraction on top of the abstract interpreter.

Runs the interpreter once per (entry function, trace partition), aggregates the recorded facts
and derives the state classes from what the public API reports.  Everything is computed from the
current facts; no variant, handler or private function is referred to by name."""
import os
import pickle
import hashlib
import multiprocessing
import time

import mir as M
from domain import Universe, fin, TOP, adt_variants, BOOL
from interp import Interp, Layout, Config, Recorder, Imprecision

_G = {}


def _worker(job):
    facts, uni, layout = _G["facts"], _G["uni"], _G["layout"]
    (entry, label, cfgd) = job
    cfg = Config(label=label, opaque=cfgd.get("opaque", ()), cell_init=cfgd.get("cell_init"),
                 drain_kinds=cfgd.get("drain_kinds"), self_init=cfgd.get("self_init"))
    cfg.default_states = cfgd.get("default_states")
    for fl in cfgd.get("flags", ()):
        setattr(cfg, fl, True)
    I = Interp(facts, uni, layout, cfg)
    body = facts.body(entry)
    t0 = time.time()
    try:
        fr, out, col = I.analyze(body, args=cfgd.get("args"))
        ret = out.locals.get((fr.fid, 0)) if out is not None else None
        reached = set(col.get("ins", {}).keys())
        heap_out = None
        if out is not None:
            heap_out = dict((k, v) for k, v in out.heap.items() if k == ("self",))
        err = None
    except Imprecision as e:
        ret, heap_out, err = None, None, str(e)
        reached = set()
    names = dict((fid, nm) for fid, nm in I.frame_names.items())
    return (entry, label, dict(facts=I.rec.facts, notes=I.rec.notes, ret=ret, self_out=heap_out, err=err, reached=reached, edges=I.edges,
                               syms=dict(I.sym_info),
                               diverges=(ret is None and err is None), frames=names, dt=time.time() - t0))


class Run:
    def __init__(self, entry, label, d):
        self.entry = entry
        self.label = label
        self.facts = d["facts"]
        self.notes = d["notes"]
        self.ret = d["ret"]
        self.err = d["err"]
        self.diverges = d["diverges"]
        self.frames = d["frames"]
        self.self_out = d["self_out"]
        self.dt = d.get("dt", 0.0)
        self.reached = d["reached"]
        self.edges = d["edges"]
        self.syms = d.get("syms", {})

    def taken_reachable(self, fid, start, removed=()):
        """blocks reachable from `start` along CFG edges that the abstract run actually took"""
        es = self.edges.get(fid, set())
        succ = {}
        for (a, b) in es:
            succ.setdefault(a, []).append(b)
        removed = set(removed)
        seen = set()
        st = [start]
        while st:
            x = st.pop()
            if x in seen or (x in removed and x != start):
                continue
            seen.add(x)
            st.extend(succ.get(x, ()))
        return seen
        self.dt = d["dt"]

    def _index(self):
        if getattr(self, "_fid_by_frame", None) is None:
            self._fid_by_frame = dict(((nm[0], tuple(nm[1])), fid) for fid, nm in self.frames.items())
            for k, v in self.facts.items():
                if isinstance(v, dict):
                    v["_run"] = self
        return self._fid_by_frame

    def chain(self, v):
        """activations enclosing a fact, outermost first: [(fid, fn, bb of the fact's position in that activation)]"""
        idx = self._index()
        ch = list(v.get("stack") or ()) + [(v["fn"], v["bb"])]
        out = []
        for i, (fn, bb) in enumerate(ch):
            fid = idx.get((fn, tuple(ch[:i])))
            out.append((fid, fn, bb))
        return out

    def pos_in(self, v, fid):
        """block of the fact's position inside activation `fid` (the call site if the fact lies in a callee), or None"""
        for (f, fn, bb) in self.chain(v):
            if f == fid:
                return (fn, bb)
        return None

    def common(self, v, w):
        """innermost activation containing both facts: (fid, fn, bb_v, bb_w) or None"""
        cv, cw = self.chain(v), self.chain(w)
        res = None
        for (a, b) in zip(cv, cw):
            if a[0] == b[0] and a[1] == b[1] and a[0] is not None:
                res = (a[0], a[1], a[2], b[2])
                if a[2] != b[2]:
                    break
            else:
                break
        return res

    def by_kind(self, kind):
        self._index()
        return [v for k, v in self.facts.items() if k[0] == kind]

    def items(self, kind):
        self._index()
        return [(k, v) for k, v in self.facts.items() if k[0] == kind]


class Analysis:
    def __init__(self, facts_path, jobs=None):
        self.facts_path = facts_path
        self.facts = M.Facts(facts_path)
        self.uni = Universe(self.facts.adts)
        self.layout = Layout(self.facts, self.uni)
        self.L = self.layout
        self.jobs = jobs or min(16, os.cpu_count() or 4)
        self.runs = {}
        self.JS = self.uni.fin[self.L.jobstate]
        self.SK = self.uni.fin[self.L.signalkind]
        self._classes = None
        self.stats = {"partitions": 0, "interp_seconds": 0.0}

    # ---- naming helpers ---------------------------------------------------------------------
    def sname(self, c):
        return self.uni.show(self.L.jobstate, c)

    def snames(self, cs):
        return sorted(self.sname(c) for c in cs)

    def kname(self, k):
        return self.uni.show(self.L.signalkind, k)

    def kind_of(self, c):
        """job kind = top-level variant of the job state"""
        return c[0]

    def evaluator_fn(self, name):
        """the evaluator method with this (public API) name; fail closed if it is missing"""
        xs = [b for b in self.facts.find("::" + name) if b.kind == "AssocFn" and b.name.startswith(self.L.evaluator.split("<")[0])]
        xs = [b for b in xs if b.name.split("::")[-1] == name]
        if len(xs) != 1:
            raise Imprecision("anchor missing or ambiguous: %s (%d candidates)" % (name, len(xs)))
        return xs[0]

    def evaluator_methods(self):
        pre = self.L.evaluator.split("<")[0] + "::<T>::"
        return [self.facts.bodies[n] for n in self.facts.order
                if n.startswith(pre) and self.facts.bodies[n].kind == "AssocFn" and "::" not in n[len(pre):]]

    # ---- running partitions -----------------------------------------------------------------
    def run_many(self, jobs):
        todo = [j for j in jobs if (j[0], j[1]) not in self.runs]
        if not todo:
            return
        _G["facts"], _G["uni"], _G["layout"] = self.facts, self.uni, self.layout
        t0 = time.time()
        if len(todo) > 3 and self.jobs > 1:
            ctx = multiprocessing.get_context("fork")
            with ctx.Pool(self.jobs) as pool:
                res = pool.map(_worker, todo, chunksize=max(1, len(todo) // (self.jobs * 4)))
        else:
            res = [_worker(j) for j in todo]
        for (entry, label, d) in res:
            self.runs[(entry, label)] = Run(entry, label, d)
            self.stats["partitions"] += 1
            self.stats["interp_seconds"] += d["dt"]
        self.stats.setdefault("wall", 0.0)
        self.stats["wall"] += time.time() - t0

    def run(self, entry, label, cfgd):
        self.run_many([(entry, label, cfgd)])
        return self.runs[(entry, label)]

    # the standard partition families ---------------------------------------------------------
    def signal_processor(self):
        """the function that drains the signal queue (found structurally)"""
        if "sigproc" in _G and _G.get("sigproc_for") is self:
            return _G["sigproc"]
        cands = []
        for b in self.evaluator_methods():
            for blk in b.blocks:
                t = blk["term"]["t"]
                if t["k"] == "call":
                    c = M.callee_of(t)
                    if c and c[0].endswith("VecDeque::<T, A>::drain"):
                        cands.append(b)
                    elif c and c[0] in ("std::mem::take", "std::mem::replace", "std::mem::swap") and t["args"]:
                        # the whole queue is taken out at once
                        a0 = t["args"][0]
                        pl = a0.get("move") or a0.get("copy")
                        ty = b.locals[pl["l"]]["s"] if (pl is not None and not pl["p"]) else ""
                        if "VecDeque<" in ty and self.L.signal_ty.split("::")[-1] in ty:
                            cands.append(b)
        cands = list(dict((b.name, b) for b in cands).values())
        if len(cands) != 1:
            raise Imprecision("cannot identify the signal-processing function (%d candidates)" % len(cands))
        _G["sigproc"], _G["sigproc_for"] = cands[0], self
        return cands[0]

    def signal_entry_names(self):
        """functions through which the processor is (re)entered: itself and its local callers that
        are not public API (the wrapper that logs).  They are opaque when analysing events."""
        sp = self.signal_processor().name
        names = {sp}
        changed = True
        while changed:
            changed = False
            for b in self.evaluator_methods():
                if b.name in names or b.vis == "Public":
                    continue
                for blk in b.blocks:
                    t = blk["term"]["t"]
                    if t["k"] == "call":
                        c = M.callee_of(t)
                        if c and (c[1] or c[0]) in names:
                            names.add(b.name)
                            changed = True
        return names

    def handler_runs(self):
        sp = self.signal_processor()
        opaque = [n for n in self.signal_entry_names() if n != sp.name]
        jobs = []
        for k in self.SK:
            for s in self.JS:
                label = "H|%s|%s" % (self.kname(k), self.sname(s))
                jobs.append((sp.name, label, dict(opaque=opaque, cell_init={"sigtarget": fin(self.L.jobstate, [s])},
                                                  drain_kinds=fin(self.L.signalkind, [k]))))
        self.run_many(jobs)
        out = {}
        for k in self.SK:
            for s in self.JS:
                out[(k, s)] = self.runs[(sp.name, "H|%s|%s" % (self.kname(k), self.sname(s)))]
        return out

    def event_runs(self, name):
        b = self.evaluator_fn(name)
        opaque = list(self.signal_entry_names())
        jobs = []
        for s in self.JS:
            jobs.append((b.name, "E|%s" % self.sname(s), dict(opaque=opaque, cell_init={"lookup": fin(self.L.jobstate, [s])})))
        self.run_many(jobs)
        return dict((s, self.runs[(b.name, "E|%s" % self.sname(s))]) for s in self.JS)

    def start_runs(self, name):
        """partition on the evaluator's start status"""
        b = self.evaluator_fn(name)
        opaque = list(self.signal_entry_names())
        ss = self.uni.fin[self.L.startstatus]
        jobs = []
        for s in ss:
            jobs.append((b.name, "S|%s" % self.uni.show(self.L.startstatus, s),
                         dict(opaque=opaque, self_init={self.L.start_field: fin(self.L.startstatus, [s])})))
        self.run_many(jobs)
        return dict((s, self.runs[(b.name, "S|%s" % self.uni.show(self.L.startstatus, s))]) for s in ss)

    def joined_run(self, body, opaque_signals=True, label="J", **kw):
        opaque = list(self.signal_entry_names()) if opaque_signals else []
        d = dict(opaque=opaque)
        d.update(kw)
        return self.run(body.name, label, d)

    def initial_start_status(self):
        """the start status the constructor stores (observation, not a name)"""
        b = self.evaluator_fn("new_with_history")
        r = self.joined_run(b)
        if r.ret is None or r.ret[0] != "adt":
            raise Imprecision("constructor result unknown")
        st = adt_variants(r.ret)[0][self.L.start_field]
        if st[0] != "fin" or len(st[2]) != 1:
            raise Imprecision("constructor does not store a single start status")
        return list(st[2])[0]

    def startup_runs(self):
        """event_startup on a not-yet-started evaluator whose jobs are all in an Init state, one run per concrete state
        of the job the classification loop is looking at (trace partition on the topological-order element)"""
        C = self.classes()
        b = self.evaluator_fn("event_startup")
        s0 = self.initial_start_status()
        opaque = list(self.signal_entry_names())
        jobs = []
        for s in sorted(C["Init"]):
            jobs.append((b.name, "STARTUP|%s" % self.sname(s),
                         dict(opaque=opaque, self_init={self.L.start_field: fin(self.L.startstatus, [s0])},
                              default_states=fin(self.L.jobstate, C["Init"]), cell_init={"topo": fin(self.L.jobstate, [s])})))
        self.run_many(jobs)
        return [self.runs[(b.name, "STARTUP|%s" % self.sname(s))] for s in sorted(C["Init"])]

    def startup_run(self):
        """event_startup on a not-yet-started evaluator whose jobs are all in an Init state"""
        C = self.classes()
        b = self.evaluator_fn("event_startup")
        s0 = self.initial_start_status()
        return self.joined_run(b, label="STARTUP", self_init={self.L.start_field: fin(self.L.startstatus, [s0])},
                               default_states=fin(self.L.jobstate, C["Init"]))

    # ---- return value helpers ------------------------------------------------------------------
    def ret_variants(self, run):
        """(ok possible?, set of error variant names or None if unknown, diverges?)"""
        r = run.ret
        if r is None:
            return (False, set(), True)
        if r[0] != "adt" or r[1] != "std::result::Result":
            return (True, None, False)
        vs = adt_variants(r)
        okp = 0 in vs
        errs = set()
        if 1 in vs:
            e = vs[1][0]
            if e[0] == "adt" and e[1] == self.L.error_ty:
                ea = self.facts.adts[self.L.error_ty]
                for vi, _ in e[2]:
                    errs.add(ea["variants"][vi]["name"])
            else:
                errs = None
        return (okp, errs, False)

    # ---- predicate summaries ---------------------------------------------------------------------
    def pred_on_state(self, body, s):
        """evaluate a pure predicate `fn(&JobState) -> bool` on one concrete state"""
        I = Interp(self.facts, self.uni, self.layout, Config(label="pred"))
        from interp import State
        from domain import ref
        st = State()
        st.heap[("predarg",)] = fin(self.L.jobstate, [s])
        fr, out, col = I.analyze(body, args={1: ref(("predarg",), ())}, state=st)
        if out is None:
            return None
        r = out.locals.get((fr.fid, 0))
        if r is None or r[0] != "fin":
            return None
        vals = set(c[0] for c in r[2])
        if len(vals) != 1:
            return None
        return bool(list(vals)[0])

    def pred_class(self, body):
        out = set()
        for s in self.JS:
            r = self.pred_on_state(body, s)
            if r is None:
                raise Imprecision("predicate %s is not decided on %s" % (body.name, self.sname(s)))
            if r:
                out.add(s)
        return frozenset(out)

    def filter_closure_class(self, closure_body):
        """states for which a `|job: &NodeInfo| -> Option<_>` / bool closure selects the job"""
        from interp import State
        from domain import ref
        out = set()
        for s in self.JS:
            I = Interp(self.facts, self.uni, self.layout, Config(label="clo", cell_init={"param": fin(self.L.jobstate, [s])}))
            sym = ("param", closure_body.name, 2)
            args = {1: TOP, 2: ref(("job", sym, frozenset([("param", 2)]), None), ())}
            fr, o, col = I.analyze(closure_body, args=args)
            if o is None:
                continue
            r = o.locals.get((fr.fid, 0))
            if r is None:
                raise Imprecision("closure %s undecided" % closure_body.name)
            if r[0] == "adt" and r[1] == "std::option::Option":
                vs = set(adt_variants(r))
                if vs == {1}:
                    out.add(s)
                elif vs != {0}:
                    raise Imprecision("closure %s undecided on %s" % (closure_body.name, self.sname(s)))
            elif r[0] == "fin" and r[1] == BOOL:
                vals = set(c[0] for c in r[2])
                if vals == {1}:
                    out.add(s)
                elif vals != {0}:
                    raise Imprecision("closure %s undecided on %s" % (closure_body.name, self.sname(s)))
            else:
                raise Imprecision("closure %s has an unexpected result" % closure_body.name)
        return frozenset(out)

    # ---- A3: state classes ------------------------------------------------------------------------
    def classes(self):
        if self._classes is not None:
            return self._classes
        C = {}
        full = frozenset(self.JS)
        # Init: states constructed by add_node
        an = self.evaluator_fn("add_node")
        r = self.joined_run(an)
        init = set()
        for v in r.by_kind("push_job"):
            val = v["value"]
            if val[0] == "adt":
                st = adt_variants(val)[0][self.L.state_field]
                if st[0] == "fin":
                    init |= set(st[2])
        if not init:
            raise Imprecision("anchor: add_node does not push a NodeInfo with a known state")
        C["Init"] = frozenset(init)

        def legal(name):
            runs = self.event_runs(name)
            ok = set()
            for s, run in runs.items():
                okp, errs, div = self.ret_variants(run)
                if errs is None:
                    raise Imprecision("%s: error variants unknown for %s" % (name, self.sname(s)))
                if "APIError" not in errs:
                    ok.add(s)
            return frozenset(ok)
        C["Ready"] = legal("event_now_running")
        C["Running"] = legal("event_job_finished_success")
        C["RunningF"] = legal("event_job_finished_failure")
        C["CleanupOffered"] = legal("event_job_cleanup_done")
        js_methods = [b for b in self.facts.order if b.startswith(self.L.jobstate + "::")]

        def js_pred(name):
            b = self.facts.body(self.L.jobstate + "::" + name)
            if b is None:
                raise Imprecision("anchor missing: %s::%s" % (self.L.jobstate, name))
            return self.pred_class(b)
        C["Finished"] = js_pred("is_finished")
        C["FailedLike"] = js_pred("is_failed")

        def query_class(name):
            """states s such that the query reports a job in state s: the query is analysed with every job in state s"""
            b = self.evaluator_fn(name)
            jobs = []
            for s in self.JS:
                jobs.append((b.name, "Q|%s" % self.sname(s), dict(cell_init={"alljobs": fin(self.L.jobstate, [s])},
                                                               default_states=fin(self.L.jobstate, [s]))))
            self.run_many(jobs)
            out = set()
            for s in self.JS:
                r = self.runs[(b.name, "Q|%s" % self.sname(s))]
                rv = r.ret
                if rv is None or rv[0] != "coll":
                    raise Imprecision("%s: result is not a collection built from the jobs (%s)" % (name, str(rv)[:80]))
                if rv[1] is not None:
                    out.add(s)
            return frozenset(out)
        C["Failed"] = query_class("query_failed")
        C["UpstreamFailed"] = query_class("query_upstream_failed")
        # the running report is either a scan of the job states or a clone of a set the engine maintains
        C["RunningSetField"] = None
        bq = self.evaluator_fn("query_jobs_running")
        rq = self.joined_run(bq)
        cl = set(v["field"] for v in rq.by_kind("clone_field"))
        if len(cl) == 1 and None not in cl and rq.ret is not None and rq.ret[0] == "obj":
            C["RunningSetField"] = list(cl)[0]
        # (a report built by walking a set of indices and looking the jobs up is not recognised as such: its operations need not
        # sit next to the state writes, which is what the pairing rule looks for; it is judged as 'not a scan of the states')
        if C["RunningSetField"] is not None:
            C["RunningQ"] = None
        else:
            C["RunningQ"] = query_class("query_jobs_running")
        C["Aborted"] = C["FailedLike"] - C["Failed"] - C["UpstreamFailed"]
        # the three observations of 'running' (success accepted, failure accepted, reported by query_jobs_running) agree on a
        # correct tree (R20.1 / R17.5 check that); where they do not, the other properties use what all three agree on, so that
        # one broken guard is reported by its own rule instead of as a lost anchor everywhere
        C["RunningAccepted"] = C["Running"]
        common = C["Running"] & C["RunningF"] & (C["RunningQ"] if C["RunningQ"] is not None else C["Running"])
        if common:
            C["Running"] = common
        self._classes = C
        return C

    # ---- transition relation ----------------------------------------------------------------------
    def transitions(self):
        """All state-write facts of all analysed entries:
        list of dict(run label, entry, fn, bb, span, from set, to set, key roles, exact pairs)"""
        if "T" in self.__dict__:
            return self.__dict__["T"]
        T = []
        H = self.handler_runs()
        for (k, s), run in H.items():
            for w in run.by_kind("write_state"):
                T.append(dict(ctx=("handler", k, s), run=run, w=w))
        for name in ("event_now_running", "event_job_finished_success", "event_job_finished_failure", "event_job_cleanup_done"):
            for s, run in self.event_runs(name).items():
                for w in run.by_kind("write_state"):
                    T.append(dict(ctx=("event", name, s), run=run, w=w))
        covered = set((t["w"]["fn"], t["w"]["bb"]) for t in T)
        sp_names = self.signal_entry_names()
        for b in self.evaluator_methods():
            if b.vis != "Public":
                continue
            short = b.name.split("::")[-1]
            rl = self.startup_runs() if short == "event_startup" else [self.joined_run(b)]
            for run in rl:
                for w in run.by_kind("write_state"):
                    if (w["fn"], w["bb"]) in covered:
                        continue   # the partitioned runs describe this site exactly
                    T.append(dict(ctx=("api", short, None), run=run, w=w))
        self.__dict__["T"] = T
        return T

    def pairs(self, t):
        w = t["w"]
        return [(f, to) for f in w["frm"] for to in w["to"]]

    def reach(self):
        """least fixpoint of the transition relation from Init"""
        C = self.classes()
        T = self.transitions()
        reach = set(C["Init"])
        changed = True
        while changed:
            changed = False
            for t in T:
                w = t["w"]
                if w["frm"] & reach:
                    new = set(w["to"]) - reach
                    if new:
                        reach |= new
                        changed = True
        return frozenset(reach)

    # ---- syntactic inventories (for coverage / floors) ---------------------------------------------
    def syntactic_state_writes(self):
        out = []
        for n in self.facts.order:
            b = self.facts.bodies[n]
            if b.kind == "Promoted":
                continue
            for blk in b.blocks:
                if blk["cleanup"]:
                    continue
                for si, st in enumerate(blk["stmts"]):
                    if st["k"] == "assign":
                        pr = st["p"]["p"]
                        if pr and pr[-1]["k"] == "field" and pr[-1]["ty"].get("adt") == self.L.jobstate:
                            out.append((n, blk["i"], si, st["span"]))
        return out

    def site(self, v):
        """human readable location of a fact"""
        sp = v.get("span") or {}
        s = sp.get("callsite") or sp.get("s") or ""
        return s.split(": ")[0] if ": " in s else s


def forced_analysis(A, body, overrides, cfgd=None, args=None, state=None, prepare=None):
    """Analyse `body` stand-alone with some callee models replaced (the A1 equivalent of 'assume this call
    returns X').  overrides: {callee def-path or generic path: model function}.  Returns (Interp, frame, exit state, collect)."""
    from interp import Interp, Config
    cfgd = cfgd or {}
    cfg = Config(label=cfgd.get("label", "FORCED"), opaque=cfgd.get("opaque", ()), cell_init=cfgd.get("cell_init"),
                 drain_kinds=cfgd.get("drain_kinds"), self_init=cfgd.get("self_init"))
    cfg.default_states = cfgd.get("default_states")
    for fl in cfgd.get("flags", ()):
        setattr(cfg, fl, True)
    I = Interp(A.facts, A.uni, A.layout, cfg)
    I.models = dict(I.models)
    for k, f in overrides.items():
        I.models[k] = f
    if prepare is not None:
        prepare(I)
    fr, out, col = I.analyze(body, args=args, state=state)
    return I, fr, out, col
