import sys, time
sys.path.insert(0, '/verif/analysis')
import mir, interp, domain
from interp import *
F = mir.Facts(sys.argv[1])
uni = domain.Universe(F.adts)
L = Layout(F, uni)
print("jobstate", L.jobstate, len(uni.fin[L.jobstate]), "signal", L.signalkind)
def run(fn_suffix, cfg):
    b = [x for x in F.find(fn_suffix) if x.kind=='AssocFn'][0]
    I = Interp(F, uni, L, cfg)
    t=time.time()
    fr, out, col = I.analyze(b)
    return I, out, time.time()-t
if __name__ == '__main__':
    fn = sys.argv[2]
    for s in uni.fin[L.jobstate]:
        cfg = Config(label=uni.show(L.jobstate, s), opaque=['process_signals'], cell_init={'lookup': fin(L.jobstate,[s])})
        I, out, dt = run(fn, cfg)
        ws = I.rec.by_kind('write_state')
        ret = out.locals.get((0,0)) if out else None
        rv = sorted(dict(ret[2]).keys()) if ret and ret[0]=='adt' else ret
        print(cfg.label, "ret variants", rv, "%.2fs"%dt)
        for k,v in ws:
            print("    W", v['fn'].split('::')[-1], v['bb'], uni.show_set(L.jobstate, v['frm']), '->', uni.show_set(L.jobstate, v['to']), v['key'][1])
        for k,v in I.rec.by_kind('set_op'):
            print("    S", v['op'], v['target'], v['elem'])
        for kind, notes in I.rec.notes.items():
            print("    NOTE", kind, sorted(notes)[:5])
