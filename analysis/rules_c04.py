"""C04 - only necessary work is executed: the clauses whose truth is in the shape of the code (necessary conditions).

Not decided: that the set of executed jobs is *exactly* the necessary set (a minimality statement over the joint state of all
jobs and the propagation of requirements across the graph)."""
import mir as M
from domain import fin, adt, adt_variants, TOP, BOOL, TRUE, FALSE
from interp import Imprecision
from protocol import forced_analysis
from rules_protocol import short, is_role, tkey
from rules_more import (prop, kinds, requirement_functions, flag_answers, loop_region, reachable_without_running)

RESULT = "std::result::Result"


def _flat(roles):
    out = []
    for r in roles:
        if isinstance(r, tuple) and r[0] == "via":
            out.extend(_flat(r[1]))
        else:
            out.append(r)
    return out


def summary_table(A):
    """For every requirement-summary function (one loop over the direct downstreams): the answer for 'no downstream left'
    (negative), and per (downstream state d, edge flag combination): the answers an iteration can return at once (early), whether
    the iteration can continue, and the answers the function gives if the loop ends right after that iteration."""
    if "_c04_tab" in A.__dict__:
        return A.__dict__["_c04_tab"]
    from interp import Interp, Config
    from domain import av_set
    from rules_protocol import is_role as _is_role
    out = []
    flag_ty = [f["ty"]["adt"] for f in A.L.edge_fields if f["ty"].get("adt") in A.uni.fin]
    combos = [()]
    for ft in flag_ty:
        combos = [c + (x,) for c in combos for x in A.uni.fin[ft]]
    for b in requirement_functions(A):
        I = Interp(A.facts, A.uni, A.layout, Config(label="REQT"))
        fr, o_, col = I.analyze(b)
        ins = col["ins"]
        nb = [v for k, v in I.rec.facts.items() if k[0] == "neighbors" and v["fid"] == fr.fid and v["dir"] == "Outgoing" and _is_role(v["key"], "param")]
        heads = [h for h in set(h for (_, h) in b.back_edges())
                 if b.term(h)["k"] == "call" and (M.callee_name(b.term(h)) or "").endswith("::next")]
        if len(nb) != 1 or len(heads) != 1:
            continue
        h = heads[0]
        loop = b.natural_loop(h)
        sw = b.term(h)["t"]
        somes = [s_ for s_ in b.succs(sw) if s_ in loop]
        nones = [s_ for s_ in b.succs(sw) if s_ not in loop and b.term(s_)["k"] != "unreachable"]
        if len(nones) != 1:
            continue
        sym = ("b", fr.fid, h, "nbr")
        col0 = {}
        I.run(fr, ins[0].copy(), start=0, stops={h}, collect=col0)
        first = col0["stops"].get(h)
        if first is None:
            continue
        ex0 = I.run(fr, first.copy(), start=nones[0], stops=())
        negative = flag_answers(ex0.locals.get((fr.fid, 0))) if ex0 is not None else None
        table = {}
        for d in sorted(A.reach()):
            for combo in combos:
                early, cont, after = set(), False, set()
                unknown = False
                errs_here = False
                for s0 in somes:
                    if s0 not in ins:
                        continue
                    st = first.copy()
                    # the element cell as bound in the loop
                    st2 = ins[s0].copy()
                    for k_, v_ in first.locals.items():
                        st2.locals[k_] = v_
                    cell = st2.heap.get(("job", sym))
                    if cell is None or cell[0] != "adt":
                        unknown = True
                        continue
                    st2.heap[("job", sym)] = av_set(cell, (("f", A.L.state_field),), fin(A.L.jobstate, [d]), A.uni)
                    fields = []
                    ci = 0
                    for f in A.L.edge_fields:
                        if f["ty"].get("adt") in A.uni.fin:
                            fields.append(fin(f["ty"]["adt"], [combo[ci]]))
                            ci += 1
                        else:
                            fields.append(TOP)
                    st2.heap["__edge_default__"] = adt(A.L.edgeinfo, {0: tuple(fields)})
                    for hk in [hk for hk in st2.heap if isinstance(hk, tuple) and hk and hk[0] == "edge"]:
                        del st2.heap[hk]
                    col2 = {}
                    ex = I.run(fr, st2, start=s0, stops={h}, collect=col2)
                    if ex is not None:
                        rv_ = ex.locals.get((fr.fid, 0))
                        if rv_ is not None and rv_[0] == "adt" and rv_[1] == "std::result::Result" and 1 in adt_variants(rv_):
                            errs_here = True
                        a_ = flag_answers(rv_)
                        if a_ is None:
                            unknown = True
                        else:
                            early |= a_
                    for b_, s2 in col2["stops"].items():
                        cont = True
                        ex2 = I.run(fr, s2.copy(), start=nones[0], stops=())
                        a2 = flag_answers(ex2.locals.get((fr.fid, 0))) if ex2 is not None else set()
                        if a2 is None:
                            unknown = True
                        else:
                            after |= a2
                table[(d, combo)] = dict(early=early, cont=cont, after=after, unknown=unknown, err=errs_here)
        out.append(dict(fn=b, negative=negative, table=table, flag_ty=flag_ty, combos=combos))
    A.__dict__["_c04_tab"] = out
    return out


def positive_answer(A):
    """the answer of the requirement summary under which the consider logic offers an up-to-date Ephemeral (None if not unique)"""
    if "_c04_pos" in A.__dict__:
        return A.__dict__["_c04_pos"]
    from rules_compare import skip_kind, consider_entry_fns, invalidated_states
    C = A.classes()
    K = kinds(A)
    sk = skip_kind(A)
    inv = invalidated_states(A)
    cleanup_kinds = set(A.kind_of(s) for s in C["CleanupOffered"])
    reach = A.reach()
    tabs = summary_table(A)
    fns = [A.facts.body(n_) for n_ in sorted(consider_entry_fns(A, sk))]
    pend = [s for s in sorted(reach) if A.kind_of(s) in cleanup_kinds and s not in C["Finished"] and s not in C["Ready"] and s not in C["Running"]
            and s not in inv and s not in C["Init"]]
    positive = set()
    for b in fns:
        for t_ in tabs:
            rb = t_["fn"]
            rt = rb.locals[0]
            fty = rt.get("adt") if rt.get("adt") in A.uni.fin else [x for x in A.uni.fin if rt["s"].startswith("std::result::Result<%s," % x)][0]
            wrap = rt.get("adt") not in A.uni.fin
            for v in A.uni.fin[fty]:
                val = fin(fty, [v])
                rv = adt(RESULT, {0: (val,)}) if wrap else val
                ov = {rb.name: (lambda rv_: (lambda I_, st_, fr_, bi_, t2_, a_, sp_: [(rv_, st_)]))(rv)}
                for s in pend:
                    I, fr, out, col = forced_analysis(A, b, ov, cfgd=dict(label="C04R", cell_init={"param": fin(A.L.jobstate, [s])}))
                    if any(k[0] == "push_signal" and K["ready"] in x["kinds"] and is_role(x["key"], "param") for k, x in I.rec.facts.items()):
                        positive.add(v)
    A.__dict__["_c04_pos"] = list(positive)[0] if len(positive) == 1 else None
    return A.__dict__["_c04_pos"]


def rule_invalidated_is_needed(A, R, rule):
    """A job that has to run makes its Ephemeral inputs needed - by the requirement summary looking at its state, or by flagging its
    incoming dependencies whenever it is marked invalidated.  (One of the two must hold for every invalidated state; if neither
    does, a parked Ephemeral input is neither run nor skipped and the evaluation stalls, or it is skipped and its consumer runs
    without it.)"""
    from rules_compare import invalidated_states
    from rules_more import requirement_field, connected_fn
    C = A.classes()
    K = kinds(A)
    H = A.handler_runs()
    inv = invalidated_states(A)
    pos = positive_answer(A)
    R.ob(rule, "the 'needed' answer of the requirement summary is identified", pos is not None)
    if pos is None:
        return
    rf = requirement_field(A)
    tabs = summary_table(A)
    # all runs that can write an invalidated state
    runs = list(A.startup_runs())
    for s in A.reach():
        if s not in C["Finished"] and s not in C["Running"] and s not in C["Ready"]:
            runs.append(H[(K["consider"], s)])
    # edge-flag combinations that can occur once the startup classification has declared the flag (R6.8): not the initial value
    from rules_compare import edge_state
    init_fields = adt_variants(edge_state(A, unknown=True).heap["__edge_default__"])[0]
    fin_idx = [i for i, f in enumerate(A.L.edge_fields) if f["ty"].get("adt") in A.uni.fin]
    rf_i = rf[0][1] if rf and rf[0][0] == "f" else None
    pos_in_combo = fin_idx.index(rf_i) if rf_i in fin_idx else None
    undeclared = set(init_fields[rf_i][2]) if (rf_i is not None and init_fields[rf_i][0] == "fin") else set()

    def declared(c):
        return pos_in_combo is None or c[pos_in_combo] not in undeclared
    for d in sorted(inv):
        by_summary = bool(tabs) and all(all((not e["unknown"]) and e["early"] == {pos} and not e["cont"]
                                            for (d2, c), e in tab["table"].items() if d2 == d and declared(c)) for tab in tabs)
        unflagged = []
        nw = 0
        for run in runs:
            for w in run.by_kind("write_state"):
                if d not in w["to"] or d in w["frm"]:
                    continue
                nw += 1
                fl = [x for x in run.by_kind("write_edge") if x["proj"] == rf and x["b"] == w["key"][0] and x["value"][0] == "fin"
                      and set(x["value"][2]) == {pos} and connected_fn(A, w, x)]
                other = [x for x in run.by_kind("write_edge") if x["proj"] == rf and x["b"] == w["key"][0] and x["value"][0] == "fin"
                         and set(x["value"][2]) != {pos} and connected_fn(A, w, x)]
                if not fl or other:
                    unflagged.append(w)
        R.ob(rule, "a job marked %s makes its Ephemeral inputs needed (through the summary, or by flagging its incoming dependencies)" % A.sname(d),
             by_summary or (nw > 0 and not unflagged),
             detail="the requirement summary does not answer 'needed' for a downstream in this state whatever the flags say, and %d of %d "
                    "writes of the state leave the incoming dependencies unflagged (or flag them 'not needed')" % (len(unflagged), nw),
             site=A.site(unflagged[0]) if unflagged else "")


def rule_summary_accepts_written_flags(A, R, rule):
    """the requirement summary has no error exit for a dependency flag that some code can write for a downstream of that kind: which
    (kind of the downstream, flag value) pairs are written is read off every write of the flag; for each reachable downstream
    state of such a kind the summary's iteration must not end in an error"""
    from rules_more import requirement_field
    from rules_compare import all_runs
    rf = requirement_field(A)
    tabs = summary_table(A)
    A.startup_runs()
    A.handler_runs()
    written = set()       # (kind of the downstream job, flag value)
    for (entry, label), run in all_runs(A):
        for w in run.by_kind("write_edge"):
            if w["proj"] != rf or w["value"][0] != "fin":
                continue
            kinds_b = set()
            for (sym, sts, _x) in (w.get("cells") or ()):
                if sym == w["b"] and sts is not None:
                    kinds_b |= set(A.kind_of(s_) for s_ in sts)
            if not kinds_b:
                kinds_b = set(A.kind_of(s_) for s_ in A.reach())
            for val in w["value"][2]:
                for k_ in kinds_b:
                    written.add((k_, val))
    R.info["written_requirement_flags"] = sorted("%s:%s" % (k_, v_) for (k_, v_) in written)
    n = 0
    for tab in tabs:
        # position of the requirement flag inside a combo
        fin_fields = [i for i, f in enumerate(A.L.edge_fields) if f["ty"].get("adt") in A.uni.fin]
        rf_i = rf[0][1] if rf and rf[0][0] == "f" else None
        pos = fin_fields.index(rf_i) if rf_i in fin_fields else None
        if pos is None:
            continue
        # the summary is asked on behalf of a job that is not finished: a direct downstream of such a job cannot have passed the
        # 'all upstreams finished' gate (C02) - it is still pending, or it was finished from outside by an upstream failure
        # (states finished by a skip or an abort are left out: whether they can coexist with an unfinished upstream is an
        # inter-job invariant that is not decided here)
        from rules_more import delayed_states
        C = A.classes()
        gated = C["Ready"] | C["Running"] | set(delayed_states(A))
        feasible = set(d_ for d_ in A.reach() if d_ not in gated and (d_ not in C["Finished"] or d_ in C["UpstreamFailed"]))
        bad = {}
        for (d, combo), e in tab["table"].items():
            if d not in feasible:
                continue
            if (A.kind_of(d), combo[pos]) in written:
                n += 1
                if e.get("err"):
                    bad.setdefault(A.sname(d), set()).add(combo[pos])
        R.ob(rule, "%s | no error exit for a dependency flag that is written for a downstream of that kind" % short(tab["fn"].name),
             not bad, detail="error for downstream state / flag value: %s" % sorted((k_, sorted(str(x) for x in v_)) for k_, v_ in bad.items())[:4],
             site=tab["fn"].span["s"])
    R.floor(rule, "(downstream state, written flag value) pairs examined in the requirement summary", n, 10)


def rule_needed_marks_inputs(A, R, rule):
    """(needed work is not lost) when the consider logic learns that a validated Ephemeral whose upstreams are still pending is
    needed, it marks all of the job's incoming dependencies as needed on every path - otherwise its own up-to-date Ephemeral inputs
    are judged unnecessary and skipped, and the job later runs without them"""
    from rules_compare import skip_kind, consider_entry_fns, invalidated_states
    from rules_more import gate_functions, error_exit_blocks, residual_blocks, _must_follow, _lift, requirement_field
    C = A.classes()
    reach = A.reach()
    sk = skip_kind(A)
    inv = invalidated_states(A)
    cleanup_kinds = set(A.kind_of(s) for s in C["CleanupOffered"])
    tabs = summary_table(A)
    rf = requirement_field(A)
    fns = [A.facts.body(n_) for n_ in sorted(consider_entry_fns(A, sk))]
    req_bodies = [t_["fn"] for t_ in tabs]
    pend = [s for s in sorted(reach) if A.kind_of(s) in cleanup_kinds and s not in C["Finished"] and s not in C["Ready"] and s not in C["Running"]
            and s not in inv and s not in C["Init"]]
    pos_ = positive_answer(A)
    positive = {pos_} if pos_ is not None else set()
    R.ob(rule, "the answer of the requirement summary under which an up-to-date Ephemeral is offered is unique", len(positive) == 1)
    gates = gate_functions(A)
    good_gates = [n_ for n_, g_ in gates.items() if g_["passing"] <= C["Finished"]]
    if len(positive) == 1:
        pos = list(positive)[0]
        n = 0
        for cb in fns:
            for rb in req_bodies:
                rt = rb.locals[0]
                fty = rt.get("adt") if rt.get("adt") in A.uni.fin else [t_ for t_ in A.uni.fin if rt["s"].startswith("std::result::Result<%s," % t_)][0]
                wrap = rt.get("adt") not in A.uni.fin
                val = fin(fty, [pos])
                rv = adt(RESULT, {0: (val,)}) if wrap else val
                ov = {rb.name: (lambda rv_: (lambda I_, st_, fr_, bi_, t_, a_, sp_: [(rv_, st_)]))(rv)}
                for gname in good_gates:
                    ov[gname] = (lambda I_, st_, fr_, bi_, t_, a_, sp_: [(FALSE, st_)])
                for s in pend:
                    I, fr, out, col = forced_analysis(A, cb, ov, cfgd=dict(label="C04N", cell_init={"param": fin(A.L.jobstate, [s])}))
                    asked = [x for k, x in I.rec.facts.items() if k[0] == "call" and x["callee"] == rb.name]
                    gated = [x for k, x in I.rec.facts.items() if k[0] == "call" and x["callee"] in good_gates]
                    if not asked or not gated:
                        continue      # from this state the summary is not consulted while upstreams are pending
                    ws = [x for k, x in I.rec.facts.items() if k[0] == "write_edge" and x["proj"] == rf
                          and x["value"][0] == "fin" and set(x["value"][2]) == {pos}
                          and is_role((x["b"], I.sym_info.get(x["b"], (frozenset(), None))[0]), "param")]
                    blocks = set(b2 for b2 in (_lift(I, fr, x) for x in ws) if b2 is not None)
                    okp = bool(ws)
                    # each write happens for every incoming dependency: inside the loop that enumerates the upstreams no path of an
                    # iteration goes around it (e.g. 'only if the flag is still undecided' would keep a startup 'not needed')
                    idx_ = dict(((nm[0], tuple(nm[1])), f) for f, nm in I.frame_names.items())
                    for x in ws:
                        asym = x.get("a")
                        if not (isinstance(asym, tuple) and asym and asym[0] == "b"):
                            continue
                        bfid, bhead = asym[1], asym[2]
                        ch = list(x.get("stack") or ()) + [(x["fn"], x["bb"])]
                        pos = None
                        for i_, (fn_, bb_) in enumerate(ch):
                            if idx_.get((fn_, tuple(ch[:i_]))) == bfid:
                                pos = (fn_, bb_)
                        if pos is None:
                            continue
                        lb = A.facts.body(pos[0])
                        if lb is None or len(lb.natural_loop(bhead)) <= 1:
                            continue
                        errs_ = error_exit_blocks(A, lb) | residual_blocks(lb)
                        t_h = lb.term(bhead)
                        if t_h["k"] != "call" or t_h["t"] < 0:
                            continue
                        sw_ = t_h["t"]
                        loop_ = lb.natural_loop(bhead)
                        for s0 in [s_ for s_ in lb.succs(sw_) if s_ in loop_]:
                            if s0 == pos[1]:
                                continue
                            if bhead in lb.reachable(s0, {pos[1]} | errs_):
                                okp = False
                    for c in asked:
                        cbb = _lift(I, fr, c)
                        if cbb is None or not _must_follow(A, I, fr, cb, cbb, blocks):
                            okp = False
                    n += 1
                    R.ob(rule, "consider logic | %s, upstreams pending, a downstream needs it | all incoming dependencies are marked as needed"
                         % A.sname(s), okp,
                         detail="the Ephemeral is known to be needed but its own inputs are not told: its up-to-date Ephemeral upstreams are "
                                "skipped and it later runs without them", site=A.site(asked[0]))
        R.floor(rule, "validated states in which the summary is consulted while upstreams are pending", n, 1)


def requirement_walkers(A):
    """functions that mark incoming dependencies as needed and walk on to the upstreams (found from the consider handler's facts)"""
    from rules_more import requirement_field
    C = A.classes()
    K = kinds(A)
    H = A.handler_runs()
    rf = requirement_field(A)
    reach = A.reach()
    walkers = set()
    for s in sorted(reach):
        if s in C["Finished"] or s in C["Running"] or s in C["Ready"]:
            continue
        run = H[(K["consider"], s)]
        # (the write itself may sit in a helper: every activation around it counts)
        wfn = set()
        for w in run.by_kind("write_edge"):
            if w["proj"] == rf:
                wfn.add(w["fn"])
                wfn |= set(x[0] for x in (w.get("stack") or ()))
        pfn = set(v["fn"] for v in run.by_kind("push_local")
                  if any(isinstance(r_, tuple) and r_[0] == "nbr" and r_[2] == "Incoming" for r_ in _flat(v["key"][1])))
        walkers |= (wfn & pfn)
    return walkers


def rule_walk_reaches_every_ephemeral(A, R, rule, walkers=None):
    """the other direction of the walk that hands 'needed' upwards: it goes on through *every* upstream Ephemeral that is not
    finished, whatever the flags of the dependency say already (a dependency can have been flagged on its own - by the validation
    of one consumer - without the chain above it having been walked): on every path of an iteration over an upstream in such a
    state the upstream is put into the worklist"""
    from rules_protocol import key_binding
    from rules_more import error_exit_blocks, residual_blocks
    C = A.classes()
    reach = A.reach()
    cleanup_kinds = set(A.kind_of(s) for s in C["CleanupOffered"])
    if walkers is None:
        walkers = requirement_walkers(A)
    n = 0
    for fn in sorted(walkers):
        body = A.facts.body(fn)
        for d in sorted(reach):
            if A.kind_of(d) not in cleanup_kinds or d in C["Finished"]:
                continue
            I, fr, out, col = forced_analysis(A, body, {}, cfgd=dict(label="C04W2", default_states=fin(A.L.jobstate, [d]),
                                                                     flags=("nonempty_nbrs",)))
            pushes = [x for k, x in I.rec.facts.items() if k[0] == "push_local" and x["fn"] == fn
                      and any(isinstance(r_, tuple) and r_[0] == "nbr" and r_[2] == "Incoming" for r_ in _flat(x["key"][1]))]
            ok, why = bool(pushes), "an upstream Ephemeral in this state is never put into the worklist"
            if pushes:
                errs = error_exit_blocks(A, body) | residual_blocks(body)
                es = I.edges.get(fr.fid, set())
                succ = {}
                for (a_, b_) in es:
                    succ.setdefault(a_, []).append(b_)
                heads = set()
                for x in pushes:
                    kb = key_binding(x)
                    if kb is not None and kb[0] == fr.fid:
                        heads.add(kb[1])
                ok = bool(heads)
                why = "the pushed key is not bound by a loop of the walk itself"
                pblocks = set(x["bb"] for x in pushes)
                # a visited-set test on the upstream itself (`if queued.insert(up) { push }`) stands for the push: an upstream
                # that is not pushed there was pushed before
                psyms = set(x["key"][0] for x in pushes)
                for k_, x in I.rec.facts.items():
                    if k_[0] == "set_op" and x["fn"] == fn and x["op"] in ("insert", "contains") and x["target"][0] == "local" \
                            and x["elem"][0] == "key" and x["elem"][1] in psyms:
                        pblocks.add(x["bb"])
                    elif k_[0] in ("mark", "marktest") and x["fn"] == fn and x["key"][0] in psyms:
                        pblocks.add(x["bb"])      # the flag-table form: `if !seen[up] { seen[up] = true; push }`
                for head in heads:
                    t = body.term(head)
                    if t["k"] != "call" or t["t"] < 0:
                        ok, why = False, "loop header is not an iterator step"
                        continue
                    sw = t["t"]
                    loop = body.natural_loop(head)
                    for s0 in [s_ for s_ in succ.get(sw, ()) if s_ in loop]:
                        seen, st = set(), [s0]
                        while st:
                            x_ = st.pop()
                            if x_ in seen or x_ in pblocks or x_ in errs:
                                continue
                            seen.add(x_)
                            st.extend(succ.get(x_, ()))
                        if head in seen and s0 not in pblocks:
                            ok, why = False, ("an iteration over an upstream in this state can complete without putting it into the "
                                              "worklist (a test on what the dependency is flagged as already ends the walk early)")
            n += 1
            R.ob(rule, "%s | an upstream in state %s | the walk that marks dependencies as needed goes on through it on every path"
                 % (short(fn), A.sname(d)), ok, detail=why, site=A.site(pushes[0]) if pushes else body.span["s"])
    R.floor(rule, "unfinished Ephemeral upstream states examined in the transitive walk", n, 3)


@prop("C04")
def check_C04(A, R, tier):
    from rules_compare import (invalidated_states, skip_kind, consider_entry_fns, validation_ty, validated_verdict, rule_shielding, STRAT,
                               force_bool, force_hist_some)
    from rules_history import rule_prune_fixpoint
    C = A.classes()
    K = kinds(A)
    H = A.handler_runs()
    T = A.transitions()
    reach = A.reach()
    # R4.10: a renamed multi-output job is recognised by the outputs it shares with its former id, wherever they stand in the id
    from rules_compare import rule_no_positional_pairing_of_id_pieces
    rule_no_positional_pairing_of_id_pieces(A, R, "R4.10")
    # R4.11: ... and no fast path switches the lookup off
    from rules_compare import rule_rename_lookup_finds
    rule_rename_lookup_finds(A, R, "R4.11")
    # R4.12 (= R3.1e/R3.2e/R3.4e): a job that the startup classification invalidates declares its incoming dependencies as needed
    # (otherwise the up-to-date Ephemerals it is going to consume are skipped, or run only thanks to a later, timing-dependent repair)
    from rules_compare import rule_startup_detectors
    rule_startup_detectors(A, R, rename={"R3.1e": "R4.12", "R3.2e": "R4.12", "R3.4e": "R4.12"})
    sk = skip_kind(A)
    cleanup_kinds = set(A.kind_of(s) for s in C["CleanupOffered"])
    skippable = set(A.kind_of(s) for s in (C["Finished"] - C["FailedLike"]) if reachable_without_running(A, s) and s in reach)
    inv = invalidated_states(A)
    R.info["invalidated_states"] = A.snames(inv)
    # R4.1 Ephemerals nobody can need are never executed: they are taken out of the graph at startup, marked finished, and a
    # finished job is never offered or started ------------------------------------------------------------------------------------
    rule_prune_fixpoint(A, R, "R4.1")
    n = 0
    for st_ in A.startup_runs()[:1]:
        for rm in st_.by_kind("dag_remove_node"):
            n += 1
            from rules_protocol import connected
            ws = [w for w in st_.by_kind("write_state") if w["key"][0] == rm["key"][0] and connected(A, w, rm)]
            tos = set()
            for w in ws:
                tos |= set(w["to"])
            R.ob("R4.1", "%s | a job taken out of the graph at startup is marked finished without failure" % short(rm["fn"]),
                 bool(ws) and tos <= (C["Finished"] - C["FailedLike"]), detail="states written: %s" % A.snames(tos), site=A.site(rm))
    R.floor("R4.1", "removals of jobs from the graph at startup", n, 1)
    # ... and where the pruning is not of the plainly complete form (rescan the whole candidate set until nothing is removed; instead:
    # a worklist fed by the neighbours of what was removed), the run-time decision must not rely on it: an invalidated Ephemeral all
    # of whose consumers are Ephemerals is not offered
    worklist_form = False
    for st_ in A.startup_runs()[:1]:
        for rm in st_.by_kind("dag_remove_node"):
            if any(isinstance(r_, tuple) and r_[0] == "nbr" for r_ in _flat(rm["key"][1])):
                worklist_form = True
    R.info["pruning_form"] = "worklist" if worklist_form else "rescan until stable"
    if worklist_form:
        from interp import Interp, Config
        from rules_more import gate_functions
        gates_ = gate_functions(A)
        good_ = [n_ for n_, g_ in gates_.items() if g_["passing"] <= C["Finished"]]
        eph_states = frozenset(x for x in reach if A.kind_of(x) in cleanup_kinds)
        for cb_ in [A.facts.body(n_) for n_ in sorted(consider_entry_fns(A, sk))]:
            for s_ in sorted(inv):
                if A.kind_of(s_) not in cleanup_kinds:
                    continue
                cfg = Config(label="C04P", cell_init={"param": fin(A.L.jobstate, [s_])})
                cfg.default_states = fin(A.L.jobstate, eph_states)
                cfg.nonempty_nbrs = True
                I_ = Interp(A.facts, A.uni, A.layout, cfg)
                I_.models = dict(I_.models)
                for g_ in good_:
                    I_.models[g_] = (lambda I2, st2, fr2, bi2, t2, a2, sp2: [(TRUE, st2)])
                fr_, out_, col_ = I_.analyze(cb_)
                rd = [x for k, x in I_.rec.facts.items() if k[0] == "push_signal" and K["ready"] in x["kinds"] and is_role(x["key"], "param")]
                R.ob("R4.1", "consider logic | %s, every other job an Ephemeral | is not offered (the worklist pruning is not relied upon)" % A.sname(s_),
                     not rd, detail="startup pruning walks a worklist (its completeness is not decided) and the consider logic offers an "
                                    "invalidated Ephemeral without checking that a job that is not an Ephemeral depends on it",
                     site=A.site(rd[0]) if rd else "")
    for t in T:
        w = t["w"]
        for f in sorted(w["frm"]):
            if f in C["Finished"]:
                for to in sorted(w["to"]):
                    R.ob("R4.1", tkey(A, t, f, to) + " | a finished job is never offered or started", to not in C["Ready"] and to not in C["Running"],
                         site=A.site(w))
    # R4.2 a job of a kind that can be skipped is offered only from an invalidated state or, for the cleanup kind (Ephemeral), from a
    # validated one (R4.3 then demands a downstream that needs it); never from an undecided one --------------------------------------
    n = 0
    undecided = set(s for s in C["Init"] if A.kind_of(s) in skippable)
    for t in T:
        w = t["w"]
        for f in sorted(w["frm"]):
            for to in sorted(w["to"]):
                if to in C["Ready"] and f not in C["Ready"] and A.kind_of(f) in skippable:
                    n += 1
                    if A.kind_of(f) in cleanup_kinds:
                        ok = f in inv or (f not in undecided)
                    else:
                        ok = f in inv
                    R.ob("R4.2", tkey(A, t, f, to) + " | offered only once it is known that the job must run", ok,
                         detail="a job that is up to date (or not yet judged) is offered for execution", site=A.site(w))
    R.floor("R4.2", "transitions of skippable kinds into the offered class", n, 2)
    # R4.3 an up-to-date Ephemeral is offered only if the requirement summary says that a downstream needs it ---------------------
    tabs = summary_table(A)
    R.floor("R4.3", "requirement-summary functions", len(tabs), 1)
    fns = [A.facts.body(n_) for n_ in sorted(consider_entry_fns(A, sk))]
    req_bodies = [t_["fn"] for t_ in tabs]
    positive = set()
    pend = [s for s in sorted(reach) if A.kind_of(s) in cleanup_kinds and s not in C["Finished"] and s not in C["Ready"] and s not in C["Running"]
            and s not in inv and s not in C["Init"]]
    R.info["validated_pending_states"] = A.snames(pend)
    R.floor("R4.3", "pending states of an up-to-date Ephemeral", len(pend), 1)
    emits = {}
    for b in fns:
        for rb in req_bodies:
            rt = rb.locals[0]
            fty = rt.get("adt") if rt.get("adt") in A.uni.fin else [t_ for t_ in A.uni.fin if rt["s"].startswith("std::result::Result<%s," % t_)][0]
            wrap = rt.get("adt") not in A.uni.fin
            for v in A.uni.fin[fty]:
                val = fin(fty, [v])
                rv = adt(RESULT, {0: (val,)}) if wrap else val
                ov = {rb.name: (lambda rv_: (lambda I_, st_, fr_, bi_, t_, a_, sp_: [(rv_, st_)]))(rv)}
                for s in pend:
                    I, fr, out, col = forced_analysis(A, b, ov, cfgd=dict(label="C04R", cell_init={"param": fin(A.L.jobstate, [s])}))
                    rd = [x for k, x in I.rec.facts.items() if k[0] == "push_signal" and K["ready"] in x["kinds"] and is_role(x["key"], "param")]
                    asked = any(k[0] == "call" and x["callee"] == rb.name for k, x in I.rec.facts.items())
                    emits[(s, v)] = (bool(rd), asked)
                    if rd:
                        positive.add(v)
    R.ob("R4.3", "exactly one answer of the requirement summary makes the consider logic offer an up-to-date Ephemeral", len(positive) == 1,
         detail="answers under which a ready signal is emitted: %s" % sorted(positive))
    for (s, v), (rd, asked) in sorted(emits.items()):
        if rd:
            R.ob("R4.3", "consider logic | %s | offered only after the requirement summary was consulted" % A.sname(s), asked,
                 detail="an up-to-date Ephemeral is offered without asking whether a downstream needs it")
    # R4.4 the summary says 'needed' only for a dependency flagged as needed or a downstream that is known to have to run ---------
    if len(positive) == 1:
        pos = list(positive)[0]
        for tab in tabs:
            b = tab["fn"]
            # the flag whose positive value alone decides
            fidx = None
            for i in range(len(tab["flag_ty"])):
                if all((tab["table"][(d, c)]["early"] == {pos} and not tab["table"][(d, c)]["cont"]) for (d, c) in tab["table"] if c[i] == pos):
                    fidx = i
            R.ob("R4.4", "%s | the dependency flag that decides 'needed' on its own is identified" % short(b.name), fidx is not None)
            if fidx is None:
                continue
            n = 0
            for d in sorted(reach):
                if d in inv:
                    continue
                bad = []
                for c in tab["combos"]:
                    if c[fidx] == pos:
                        continue
                    e = tab["table"][(d, c)]
                    if e["unknown"] or pos in e["early"] or (pos in e["after"] and pos not in (tab["negative"] or set())):
                        bad.append(tuple(A.uni.show(t_, x) for t_, x in zip(tab["flag_ty"], c)))
                n += 1
                R.ob("R4.4", "%s | a downstream in state %s whose dependency is not flagged as needed | does not make the Ephemeral 'needed'"
                     % (short(b.name), A.sname(d)), not bad,
                     detail="with edge flags %s the summary answers 'needed': an up-to-date Ephemeral is executed although no downstream that "
                            "runs consumes it" % sorted(set(bad))[:3])
            R.floor("R4.4", "downstream states examined", n, 10)
    rule_invalidated_is_needed(A, R, "R4.9")
    # R4.5 shielding: an output judged unaltered does not invalidate a dependency (= R15.2) ... ----------------------------------------
    rule_shielding(A, R, "R4.5")
    # R4.6 ... and the validation verdict is 'invalidated' only if some comparison said 'altered' or some record is missing -----------
    vt = validation_ty(A)
    uvs = [b for b in A.evaluator_methods() if b.locals[0]["s"].startswith("std::result::Result<%s" % vt)]
    R.floor("R4.6", "validation function", len(uvs), 1)
    # which verdict makes the consider logic mark a not-yet-judged job invalidated?
    inv_verdicts = set()
    for b in fns:
        for uvb in uvs:
            for verdict in A.uni.fin[vt]:
                ov = {uvb.name: (lambda vv: (lambda I_, st_, fr_, bi_, t_, a_, sp_: [(adt(RESULT, {0: (fin(vt, [vv]),)}), st_)]))(verdict)}
                for s in sorted(C["Init"]):
                    if A.kind_of(s) not in skippable:
                        continue
                    I, fr, out, col = forced_analysis(A, b, ov, cfgd=dict(label="C04V", cell_init={"param": fin(A.L.jobstate, [s])}))
                    ws = [x for k, x in I.rec.facts.items() if k[0] == "write_state" and is_role(x["key"], "param")]
                    if any(set(x["to"]) & inv for x in ws):
                        inv_verdicts.add(verdict)
    R.ob("R4.6", "the 'invalidated' verdict is identified", len(inv_verdicts) == 1, detail=str(sorted(inv_verdicts)))
    if len(inv_verdicts) == 1:
        iv = list(inv_verdicts)[0]
        from rules_more import call_graph, reachable_from
        g = call_graph(A)
        for b in uvs:
            ei_names = set(n_ for n_ in reachable_from(g, [b.name]) if n_ != b.name and A.facts.body(n_) is not None
                           and A.facts.body(n_).locals[0]["s"].startswith("std::result::Result<bool")
                           and any(blk["term"]["t"]["k"] == "call" and (M.callee_of(blk["term"]["t"]) or ("",))[0] == STRAT + "is_history_altered"
                                   for blk in A.facts.body(n_).blocks))
            ov = dict((n_, (lambda I_, st_, fr_, bi_, t_, a_, sp_: [(adt(RESULT, {0: (FALSE,)}), st_)])) for n_ in ei_names)
            ov[STRAT + "is_history_altered"] = force_bool(False)
            ov["std::collections::HashMap::<K, V, S, A>::get"] = force_hist_some(A)
            I, fr, out, col = forced_analysis(A, b, ov, cfgd=dict(label="C04U"))
            rv = out.locals.get((fr.fid, 0)) if out is not None else None
            verdicts = None
            if rv is not None and rv[0] == "adt" and rv[1] == RESULT:
                vs = adt_variants(rv)
                verdicts = set(vs[0][0][2]) if (0 in vs and vs[0][0][0] == "fin") else (set() if 0 not in vs else None)
            R.ob("R4.6", "%s | every comparison says 'unaltered', every record exists | the verdict is not 'invalidated'" % short(b.name),
                 verdicts is not None and iv not in verdicts,
                 detail="possible verdicts: %s" % (sorted(A.uni.show(vt, x) for x in verdicts) if verdicts is not None else "unknown"))
    # R4.7 'needed' is handed on transitively only through Ephemerals: an Output/Always upstream either runs on its own grounds or not
    # at all; marking the inputs of a still undecided Output as needed makes its (up-to-date) Ephemeral inputs run for nothing ------
    from rules_more import requirement_field
    rf = requirement_field(A)
    walkers = requirement_walkers(A)
    R.info["transitive_requirement_walks"] = sorted(short(x) for x in walkers)
    n = 0
    for fn in sorted(walkers):
        body = A.facts.body(fn)
        for d in sorted(reach):
            I, fr, out, col = forced_analysis(A, body, {}, cfgd=dict(label="C04W", default_states=fin(A.L.jobstate, [d])))
            pushes = [x for k, x in I.rec.facts.items() if k[0] == "push_local"
                      and any(isinstance(r_, tuple) and r_[0] == "nbr" and r_[2] == "Incoming" for r_ in _flat(x["key"][1]))]
            n += 1
            R.ob("R4.7", "%s | an upstream in state %s | the walk that marks dependencies as needed continues only through Ephemerals"
                 % (short(fn), A.sname(d)), not pushes or A.kind_of(d) in cleanup_kinds,
                 detail="the inputs of a job that is not an Ephemeral are marked as needed because one of its consumers is: its up-to-date "
                        "Ephemeral inputs are executed although it may never run", site=A.site(pushes[0]) if pushes else "")
    if walkers:
        R.floor("R4.7", "upstream states examined in the transitive walk", n, 10)
    rule_walk_reaches_every_ephemeral(A, R, "R4.7", walkers)
    rule_needed_marks_inputs(A, R, "R4.8")
    R.explanation = ("Necessary conditions of 'only necessary work is executed', each over all paths of the code: Ephemerals nobody can need are "
                     "taken out of the graph at startup (complete candidate set, iterated to the fixpoint) and marked finished, and finished jobs "
                     "are never offered; a skippable job is offered only from an invalidated state or - Ephemerals - from a validated one, and "
                     "then only under the one answer of the requirement summary that means 'a downstream needs it'; that answer is given only "
                     "for a dependency flagged as needed or a downstream that has to run; an output judged unaltered does not invalidate a "
                     "dependency, and without an altered or missing record the validation verdict is never 'invalidated'.  Not decided: that "
                     "the dependency flags themselves are exact (requirement propagation across the graph), i.e. minimality of the executed set.")
    R.assume("exactness of the per-dependency 'needed' flags (propagation across the graph) is not decided; the rules are necessary conditions")


def rule_summary_wrappers_transparent(A, R, rule):
    """helpers that turn the requirement summary's answer into a yes/no for their callers add nothing of their own: with the summary
    forced to 'a downstream needs it' they answer 'yes' on every path (a shortcut in front of the summary - 'all downstreams are
    finished anyway' - overrides a dependency that is flagged as needed; the decision functions behind treat that as impossible)"""
    pos = positive_answer(A)
    tabs = summary_table(A)
    n = 0
    for t_ in tabs:
        rb = t_["fn"]
        rt = rb.locals[0]
        fty = rt.get("adt") if rt.get("adt") in A.uni.fin else [x for x in A.uni.fin if rt["s"].startswith("std::result::Result<%s," % x)][0]
        wrap = rt.get("adt") not in A.uni.fin
        if pos is None:
            continue
        val = fin(fty, [pos])
        rv = adt(RESULT, {0: (val,)}) if wrap else val
        for b in A.evaluator_methods():
            if b.name == rb.name:
                continue
            s0 = b.locals[0]["s"]
            if not (s0 == "bool" or s0.startswith("std::result::Result<bool,")):
                continue
            calls = [blk for blk in b.blocks if not blk["cleanup"] and blk["term"]["t"]["k"] == "call"
                     and ((M.callee_of(blk["term"]["t"]) or ("", ""))[1] or (M.callee_of(blk["term"]["t"]) or ("", ""))[0]) == rb.name]
            if not calls:
                continue
            I, fr, out, col = forced_analysis(A, b, {rb.name: (lambda I_, st_, f_, bi_, t2_, a_, sp_, _rv=rv: [(_rv, st_)])},
                                              cfgd=dict(label="C04T"))
            r0 = out.locals.get((fr.fid, 0)) if out is not None else None
            answers = None
            if r0 is not None and r0[0] == "fin":
                answers = set(c[0] for c in r0[2])
            elif r0 is not None and r0[0] == "adt" and r0[1] == RESULT:
                vs = adt_variants(r0)
                p0 = vs.get(0, (None,))[0]
                answers = (set(c[0] for c in p0[2]) if (p0 is not None and p0[0] == "fin") else {0, 1}) | ({"err"} if 1 in vs else set())
            n += 1
            R.ob(rule, "%s | with the requirement summary answering 'needed' the helper answers 'yes' on every path" % short(b.name),
                 answers == {1}, detail="possible answers: %s" % (sorted(map(str, answers)) if answers is not None else r0), site=b.span["s"])
    R.floor(rule, "yes/no helpers on top of the requirement summary", n, 1)
