"""A0: run the ppg-mir-dump driver over /repo's *current working tree* and cache the facts.

The cache key is the SHA-256 of every build input of the crate (all *.rs under src/, Cargo.toml,
Cargo.lock, build.rs, .cargo/config*), of the driver binary and of the requested configuration,
so an edited source file always leads to a fresh extraction.  VERIF_NO_CACHE=1 forces one."""
import hashlib
import os
import shutil
import subprocess
import sys
import tempfile
import time

VERIF = os.path.dirname(os.path.dirname(os.path.abspath(__file__)))
REPO = os.environ.get("VERIF_REPO", "/repo")
CACHE = os.path.join(VERIF, ".cache")
DRIVER = os.path.join(VERIF, "driver", "target", "release", "ppg-mir-dump")
GUARD = "tyberiusprime_pypipegraph2_verif"


def repo_inputs():
    out = []
    for base in ("src", "benches", "examples", "tests", ".cargo"):
        p = os.path.join(REPO, base)
        if not os.path.isdir(p):
            continue
        for dp, dn, fn in os.walk(p):
            for f in sorted(fn):
                if f.endswith(".rs") or f.endswith(".toml"):
                    out.append(os.path.join(dp, f))
    for f in ("Cargo.toml", "Cargo.lock", "build.rs", "rust-toolchain.toml", "rust-toolchain"):
        p = os.path.join(REPO, f)
        if os.path.isfile(p):
            out.append(p)
    return sorted(out)


def input_hash(config):
    h = hashlib.sha256()
    for p in repo_inputs():
        h.update(p.encode())
        with open(p, "rb") as fh:
            h.update(hashlib.sha256(fh.read()).digest())
    with open(DRIVER, "rb") as fh:
        h.update(hashlib.sha256(fh.read()).digest())
    h.update(repr(config).encode())
    return h.hexdigest()[:24]


def sysroot():
    return subprocess.check_output(["rustc", "+nightly", "--print", "sysroot"], text=True).strip()


def ensure_driver():
    if not os.path.isfile(DRIVER):
        subprocess.check_call(["cargo", "build", "--release", "--offline"], cwd=os.path.join(VERIF, "driver"),
                              env=dict(os.environ, CARGO_NET_OFFLINE="true"))


def extract(config="lib", force=False, repo=None):
    """config: 'lib' (default cfg), 'libtest' (lib with cfg(test)), 'bins'.  Returns path of the facts file."""
    global REPO
    if repo is not None:
        REPO = repo
    ensure_driver()
    os.makedirs(CACHE, exist_ok=True)
    key = input_hash(config)
    out = os.path.join(CACHE, "facts-%s-%s.json" % (config, key))
    if os.path.isfile(out) and not force and not os.environ.get("VERIF_NO_CACHE"):
        return out, key, 0.0, True
    t0 = time.time()
    # dependencies are built once into a persistent target dir; the crate's own fingerprints are
    # removed so that cargo re-invokes the wrapper (cargo would otherwise replay a cached result)
    # (parallel corpus workers each use their own copy of the target directory: cargo locks it)
    target = os.path.join(CACHE, "target-" + config + os.environ.get("VERIF_TARGET_SUFFIX", ""))
    os.makedirs(target, exist_ok=True)
    # several checks may be started at the same time: one extraction per target directory at a time (the fingerprint
    # removal below must not hit a running cargo), and whoever comes second finds the facts of the first
    import fcntl
    lock = open(os.path.join(CACHE, os.path.basename(target) + ".lock"), "w")
    fcntl.flock(lock, fcntl.LOCK_EX)
    try:
        if os.path.isfile(out) and not force and not os.environ.get("VERIF_NO_CACHE"):
            return out, key, 0.0, True
        return _extract_locked(config, out, key, target, t0)
    finally:
        fcntl.flock(lock, fcntl.LOCK_UN)
        lock.close()


def _extract_locked(config, out, key, target, t0):
    for prof in ("debug",):
        fp = os.path.join(target, prof, ".fingerprint")
        if os.path.isdir(fp):
            for d in os.listdir(fp):
                if d.startswith("pypipegraph2-") or d.startswith("ppg2_"):
                    shutil.rmtree(os.path.join(fp, d), ignore_errors=True)
    tmp = tempfile.mkdtemp(prefix="facts-", dir=CACHE)
    env = dict(os.environ)
    env["LD_LIBRARY_PATH"] = sysroot() + "/lib" + (":" + env["LD_LIBRARY_PATH"] if env.get("LD_LIBRARY_PATH") else "")
    env["RUSTFLAGS"] = "-Zmir-opt-level=0 -Awarnings --cfg " + GUARD
    env["RUSTC_WORKSPACE_WRAPPER"] = DRIVER
    env["CARGO_TARGET_DIR"] = target
    env["CARGO_NET_OFFLINE"] = "true"
    env["PPG_DUMP_DIR"] = tmp
    env["PPG_DUMP_CRATE"] = "pypipegraph2"
    cmd = ["cargo", "+nightly", "check", "--offline", "--quiet"]
    if config == "lib":
        cmd += ["--lib"]
    elif config == "libtest":
        cmd += ["--lib", "--profile", "test"]
    elif config == "bins":
        cmd += ["--bins"]
    r = subprocess.run(cmd, cwd=REPO, env=env, stdout=subprocess.PIPE, stderr=subprocess.STDOUT, text=True)
    files = sorted(os.listdir(tmp))
    if r.returncode != 0 or not files:
        sys.stderr.write(r.stdout[-4000:])
        shutil.rmtree(tmp, ignore_errors=True)
        raise RuntimeError("fact extraction failed (config=%s, rc=%d, files=%r): the tree does not build with the nightly driver"
                           % (config, r.returncode, files))
    if config in ("lib", "libtest"):
        cands = [f for f in files if f.startswith("pypipegraph2-")]
        if len(cands) != 1:
            shutil.rmtree(tmp, ignore_errors=True)
            raise RuntimeError("expected exactly one lib fact file, got %r" % files)
        os.replace(os.path.join(tmp, cands[0]), out)
    else:
        import json
        merged = {"bodies": [], "adts": [], "meta": {"units": files}}
        for f in files:
            with open(os.path.join(tmp, f)) as fh:
                d = json.load(fh)
            for b in d["bodies"]:
                b["unit"] = f
                merged["bodies"].append(b)
            merged["adts"].extend(d["adts"])
        with open(out + ".tmp", "w") as fh:
            json.dump(merged, fh)
        os.replace(out + ".tmp", out)
    shutil.rmtree(tmp, ignore_errors=True)
    # keep the cache small: only the few most recent fact files per configuration survive
    if os.environ.get("VERIF_TARGET_SUFFIX"):
        return out, key, time.time() - t0, False      # a corpus worker: its caller moves the file away itself
    olds = sorted((f for f in os.listdir(CACHE) if f.startswith("facts-%s-" % config) and f.endswith(".json")
                   and os.path.join(CACHE, f) != out), key=lambda f: os.path.getmtime(os.path.join(CACHE, f)), reverse=True)
    for f in olds[4:]:
        try:
            os.remove(os.path.join(CACHE, f))
        except OSError:
            pass
    return out, key, time.time() - t0, False


if __name__ == "__main__":
    cfg = sys.argv[1] if len(sys.argv) > 1 else "lib"
    p, k, dt, cached = extract(cfg, force="--force" in sys.argv)
    print(p, k, "%.1fs" % dt, "cached" if cached else "extracted")
