import sys, time
sys.path.insert(0, '/verif/analysis')
import protocol
t=time.time()
A = protocol.Analysis(sys.argv[1])
C = A.classes()
for k,v in C.items(): print(k, A.snames(v))
print("classes %.1fs"%(time.time()-t))
T = A.transitions()
print(len(T), "transition facts", "%.1fs"%(time.time()-t))
print("Reach", len(A.reach()), "unreached:", A.snames(set(A.JS)-A.reach()))
sites=set()
for t_ in T:
    w=t_['w']; sites.add((w['fn'],w['bb']))
syn=set((n,b) for (n,b,si,sp) in A.syntactic_state_writes())
print("sites recorded", len(sites), "syntactic", len(syn), "missing", sorted(syn-sites))
notes={}
for r in A.runs.values():
    for k,v in r.notes.items(): notes.setdefault(k,set()).update(v)
    if r.err: print("ERR", r.entry, r.label, r.err)
print(notes)
print(A.stats)
