import sys
sys.path.insert(0, '/verif/analysis')
from dev import *
k=[x for x in uni.fin[L.signalkind] if uni.show(L.signalkind,x)=='ConsiderJob'][0]
s=[x for x in uni.fin[L.jobstate] if uni.show(L.jobstate,x)==sys.argv[2]][0]
cfg = Config(label='x', opaque=['process_signals'], cell_init={'sigtarget': fin(L.jobstate,[s])}, drain_kinds=fin(L.signalkind,[k]))
I, out, dt = run('::inner_process_signals', cfg)
for kk,v in I.rec.by_kind('write_state'):
    print("W", v['fn'].split('::')[-1], v['bb'], uni.show_set(L.jobstate, v['frm']), '->', uni.show_set(L.jobstate, v['to']))
    for c in v['cells']:
        print("     cell", c[0], uni.show_set(L.jobstate, c[1]) if len(c[1])<8 else len(c[1]))
    print("     stack", v['stack'])
