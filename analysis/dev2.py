import sys, time
sys.path.insert(0, '/verif/analysis')
from dev import *
kinds = uni.fin[L.signalkind]
only = sys.argv[2] if len(sys.argv)>2 else None
tot=time.time()
for k in kinds:
    kn = uni.show(L.signalkind,k)
    if only and kn!=only: continue
    for s in uni.fin[L.jobstate]:
        cfg = Config(label=kn+"/"+uni.show(L.jobstate, s), opaque=['process_signals'], cell_init={'sigtarget': fin(L.jobstate,[s])}, drain_kinds=fin(L.signalkind,[k]))
        I, out, dt = run('::inner_process_signals', cfg)
        ret = out.locals.get((0,0)) if out else None
        rv = sorted(dict(ret[2]).keys()) if ret and ret[0]=='adt' else ret
        print(cfg.label, "ret", rv, "%.2fs"%dt)
        for kk,v in I.rec.by_kind('write_state'):
            print("    W", v['fn'].split('::')[-1], v['bb'], uni.show_set(L.jobstate, v['frm']) if len(v['frm'])<10 else len(v['frm']), '->', uni.show_set(L.jobstate, v['to']), set(r if isinstance(r,str) else r[0]+":"+str(r[-1]) for r in v['key'][1]))
        for kk,v in I.rec.by_kind('push_signal'):
            print("    E", v['fn'].split('::')[-1], v['bb'], uni.show_set(L.signalkind, v['kinds']), set(r if isinstance(r,str) else r[0]+":"+str(r[-1]) for r in v['key'][1]), v['container'] if v['container']=='queue' else 'local')
        for kk,v in I.rec.by_kind('set_op'):
            print("    S", v['op'], v['target'], sorted(v['elem'][1]) if v['elem'][0]=='str' else v['elem'])
        for kind, notes in I.rec.notes.items():
            print("    NOTE", kind, sorted(notes)[:8])
print("total %.1fs"%(time.time()-tot))
