"""Protocol rules: C20, C17 (and helpers reused by C05, C07, C10, C13, C02, C06)."""
import mir as M
from domain import fin, adt_variants, TOP
from interp import Imprecision

EVENTS = ("event_now_running", "event_job_finished_success", "event_job_finished_failure", "event_job_cleanup_done")
EFFECT_KINDS = ("store_self", "write_state", "write_jobfield", "write_edge", "dag_remove_node", "push_job", "extend", "retain")


def short(fn):
    return fn.split("::")[-1] if "{closure" not in fn else "::".join(fn.split("::")[-2:])


def effects(A, run):
    """facts of a run that change evaluator state (A6)"""
    out = []
    for k, v in run.facts.items():
        kind = k[0]
        if kind in EFFECT_KINDS:
            if kind == "extend" and v["target"][0] != "self":
                continue
            if kind == "retain":
                continue
            out.append((kind, v))
        elif kind == "set_op":
            if v["op"] in ("insert", "remove") and v["target"][0] in ("self", "obj"):
                out.append((kind, v))
        elif kind == "map_op":
            if v["op"] in ("insert", "remove", "get_mut") and v["target"][0] == "self":
                out.append((kind, v))
        elif kind == "push_signal":
            if v["container"] == "queue":
                out.append((kind, v))
        elif kind == "opaque_call":
            out.append((kind, v))
    for n in run.notes.get("imprecise", ()):
        out.append(("imprecise", dict(fn=n, span={}, bb=-1)))
    return out


def set_fields(A):
    """(ready set field, cleanup set field) identified by which query clones them"""
    out = {}
    for q in ("query_ready_to_run", "query_ready_for_cleanup"):
        b = A.evaluator_fn(q)
        r = A.joined_run(b)
        fs = set(v["field"] for v in r.by_kind("clone_field"))
        if len(fs) != 1 or None in fs:
            raise Imprecision("%s does not clone exactly one evaluator field" % q)
        out[q] = list(fs)[0]
    if out["query_ready_to_run"] == out["query_ready_for_cleanup"]:
        raise Imprecision("ready and cleanup queries read the same field")
    return out["query_ready_to_run"], out["query_ready_for_cleanup"]


def pushed_kinds(A, name, states):
    """signal kinds pushed on the queue by event `name` in every run from `states` (intersection)"""
    runs = A.event_runs(name)
    res = None
    for s in states:
        ks = set()
        for v in runs[s].by_kind("push_signal"):
            if v["container"] == "queue":
                ks |= set(v["kinds"])
        res = ks if res is None else (res & ks)
    return res or set()


def event_kinds(A):
    C = A.classes()
    sk = pushed_kinds(A, "event_job_finished_success", C["Running"])
    fk = pushed_kinds(A, "event_job_finished_failure", C["RunningF"])
    ck = pushed_kinds(A, "event_job_cleanup_done", C["CleanupOffered"])
    if len(sk) != 1 or len(fk) != 1 or len(ck) != 1:
        raise Imprecision("cannot identify the success/failure/cleanup signal kinds (%r %r %r)" % (sk, fk, ck))
    return list(sk)[0], list(fk)[0], list(ck)[0]


def sig_writes(A, kind):
    """state writes of the handler of `kind` on the signal's own target: {from: set(to)}"""
    H = A.handler_runs()
    out = {}
    for s in A.JS:
        run = H[(kind, s)]
        for w in run.by_kind("write_state"):
            if is_role(w["key"], "sigtarget"):
                for f in w["frm"]:
                    out.setdefault(f, set()).update(w["to"])
    return out


def is_role(keyinfo, tag):
    """does the key have the role (directly, or as an element that went through a local collection)?"""
    def has(roles):
        for r in roles:
            if isinstance(r, tuple) and r[0] == "via":
                if has(r[1]):
                    return True
                continue
            t = r[0] if isinstance(r, tuple) else r
            if t == tag:
                return True
        return False
    return has(keyinfo[1])


def role_str(keyinfo):
    out = []
    for r in sorted(keyinfo[1], key=repr):
        if isinstance(r, tuple):
            if r[0] == "nbr":
                out.append("nbr(%s)" % r[2])
            elif r[0] == "lookup":
                out.append("lookup")
            elif r[0] == "via":
                out.append("via(" + role_str((None, r[1])) + ")")
            elif r[0] == "was":
                continue
            else:
                out.append(str(r[0]))
        else:
            out.append(r)
    return "+".join(out) or "unknown"


def key_binding(fact):
    """(fid, block) where the job key of the fact was bound by an iterator step, or None"""
    sym = fact["key"][0] if isinstance(fact.get("key"), tuple) else None
    if isinstance(sym, tuple) and len(sym) >= 3 and sym[0] == "b":
        return (sym[1], sym[2])
    return None


def connected(A, w, v):
    """are fact `v` and state write `w` on one path of the same function activation that does not
    re-bind the job key in between (a later loop iteration is a different job)?  Facts in callees are
    represented by their call sites in the innermost activation that contains both."""
    run = w.get("_run") or v.get("_run")
    if run is None:
        return True
    com = run.common(w, v)
    if com is None:
        return True     # no common activation: no path information, match on the key only
    fid, fn, bw, bv = com
    body = A.facts.body(fn)
    if body is None:
        return True
    removed = set()
    kb = key_binding(w)
    if kb is not None and kb[0] == fid:
        removed.add(kb[1])
    if bw == bv:
        return True
    if bv in body.reachable(bw, removed - {bw}):
        return True
    return bw in body.reachable(bv, removed - {bv})


def elem_is_key(elem, keyinfo):
    """does the set element (string AV) denote the id of the job `keyinfo`?"""
    if elem is None or elem[0] != "str":
        return False
    sym, roles = keyinfo
    ok = set()
    ok.add(("jobid", sym))
    for r in roles:
        if isinstance(r, tuple) and r[0] == "lookup" and r[1] is not None:
            ok |= set(r[1])
    return bool(elem[1]) and all(p in ok for p in elem[1])


# =============================================================================================
def check_C20(A, R, tier):
    C = A.classes()
    ready_f, cleanup_f = set_fields(A)
    H = A.handler_runs()
    # independent definitions of the legal classes -------------------------------------------
    ready2 = set()
    cleanup2 = set()
    for (k, s), run in list(H.items()):
        ins_ready = [v for v in run.by_kind("set_op") if v["op"] == "insert" and v["target"] == ("self", ready_f)]
        ins_clean = [v for v in run.by_kind("set_op") if v["op"] == "insert" and v["target"][0] in ("self", "obj") and v["target"] != ("self", ready_f)]
        for w in run.by_kind("write_state"):
            if any(elem_is_key(v["elem"], w["key"]) and connected(A, w, v) for v in ins_ready):
                ready2 |= set(w["to"])
            if any(elem_is_key(v["elem"], w["key"]) and connected(A, w, v) for v in ins_clean):
                cleanup2 |= set(w["to"])
    runq = C["RunningQ"]
    runq_what = "states reported by query_jobs_running"
    if runq is None:
        # the running report is a maintained set: the independent definition is 'states whose entry inserts the job into that set'
        rset = ("self", C["RunningSetField"])
        run2 = set()
        allruns = list(H.values())
        for nm_ in EVENTS:
            allruns += list(A.event_runs(nm_).values())
        for run in allruns:
            ins_run = [v for v in run.by_kind("set_op") if v["op"] == "insert" and v["target"] == rset]
            for w in run.by_kind("write_state"):
                if any(elem_is_key(v["elem"], w["key"]) and connected(A, w, v) for v in ins_run):
                    run2 |= set(w["to"])
        runq, runq_what = frozenset(run2), "states whose entry inserts the job into the set query_jobs_running reports"
    indep = {"event_now_running": ("Ready", frozenset(ready2), "states whose entry inserts the job into the ready set"),
             "event_job_finished_success": ("RunningAccepted", runq, runq_what),
             "event_job_finished_failure": ("RunningF", runq, runq_what),
             "event_job_cleanup_done": ("CleanupOffered", frozenset(cleanup2), "states whose entry inserts the job into the cleanup set")}
    reach = A.reach()
    R.info["reachable_states"] = len(reach)
    R.info["unreachable_states"] = A.snames(set(A.JS) - reach)
    for name in EVENTS:
        cls, ref_set, what = indep[name]
        legal = C[cls]
        R.floor("R20.1", "legal states of %s" % name, len(legal))
        runs = A.event_runs(name)
        for s in A.JS:
            if s not in reach:
                continue    # no write ever produces this state: the call cannot be made in it
            run = runs[s]
            okp, errs, div = A.ret_variants(run)
            sn = A.sname(s)
            # R20.1: accepted  <=>  in the independently defined class
            acc = s in legal
            R.ob("R20.1", "%s | %s | accepted=%s expected=%s" % (name, sn, acc, s in ref_set), acc == (s in ref_set),
                 detail="%s %s state %s although it is %s the class '%s'" % (
                     name, "accepts" if acc else "rejects", sn, "outside" if acc else "inside", what),
                 site=run.entry)
            if not acc:
                # the rejection is an APIError and nothing else
                R.ob("R20.1", "%s | %s | rejection is exactly Err(APIError)" % (name, sn),
                     (not okp) and errs == {"APIError"} and not div,
                     detail="result from illegal state: ok=%s errors=%s diverges=%s" % (okp, sorted(errs or []), div), site=run.entry)
                # R20.2: no effect on the rejecting path
                eff = effects(A, run)
                R.ob("R20.2", "%s | %s | rejected without side effects" % (name, sn), not eff,
                     detail="; ".join("%s in %s at %s" % (k, short(v.get("fn", "?")), A.site(v)) for k, v in eff[:4]),
                     site=A.site(eff[0][1]) if eff else "")
            else:
                R.ob("R20.1", "%s | %s | legal call is not rejected" % (name, sn), "APIError" not in (errs or set()),
                     detail="errors=%s" % sorted(errs or []), site=run.entry)
    # R20.4: 'offered' is what the queries report: the reported sets hold exactly the jobs in the classes the events accept
    # (a job taken out of a reported set while it stays in the accepted class can be acknowledged although it is not on offer)
    pairing(A, R, "R20.4", C["Ready"], ("self", ready_f), "ready")
    pairing(A, R, "R20.4c", C["CleanupOffered"], None, "cleanup", exclude=("self", ready_f), field=cleanup_f)
    if C["RunningQ"] is None:
        pairing(A, R, "R20.4r", C["Running"], ("self", C["RunningSetField"]), "running")
    # event_startup: a second start is rejected without effects
    s0 = A.initial_start_status()
    sruns = A.start_runs("event_startup")
    R.floor("R20.1", "start statuses", len(sruns), 2)
    for s, run in sruns.items():
        okp, errs, div = A.ret_variants(run)
        sn = A.uni.show(A.L.startstatus, s)
        if s == s0:
            R.ob("R20.1", "event_startup | %s | first start is not rejected" % sn, errs is not None and "APIError" not in errs,
                 detail="errors=%s" % sorted(errs or []))
        else:
            R.ob("R20.1", "event_startup | %s | rejection is exactly Err(APIError)" % sn,
                 (not okp) and errs == {"APIError"} and not div, detail="ok=%s errors=%s" % (okp, sorted(errs or [])))
            eff = effects(A, run)
            R.ob("R20.2", "event_startup | %s | rejected without side effects" % sn, not eff,
                 detail="; ".join("%s in %s at %s" % (k, short(v.get("fn", "?")), A.site(v)) for k, v in eff[:4]))
    # R20.5: 'started' is recorded before anything in the start-up can fail: a start that ends in an error part-way must not leave
    # the evaluation looking un-started (a second start would then be accepted and run the start-up again on a half-started graph)
    import rules_more
    sb = A.evaluator_fn("event_startup")
    stores = set()
    for run in A.startup_runs():
        for v in run.by_kind("store_self"):
            if v["proj"][:1] == (("f", A.L.start_field),) and v["fn"] == sb.name and not v.get("stack"):
                stores.add(v["bb"])
    # error exits that the rejection itself takes are those not reachable from a store block and not passing one: every *other*
    # fallible call (a call whose result is tested for Err / `?`) must come after a store
    errs = rules_more.error_exit_blocks(A, sb)
    fallible = []
    for blk in sb.blocks:
        t = blk["term"]["t"]
        if blk["cleanup"] or t["k"] != "call":
            continue
        c = M.callee_of(t)
        cb = A.facts.body((c[1] or c[0])) if c else None
        # (a check that only reads - `&self` - is part of the rejection itself, e.g. a helper that answers 'already started')
        if cb is not None and cb.locals[0]["s"].startswith("std::result::Result<") and cb.kind in ("Fn", "AssocFn") \
                and cb.arg_count >= 1 and cb.locals[1]["s"].startswith("&mut "):
            fallible.append(blk["i"])
    early = [bi for bi in fallible if not any(sb.dominates(sbb, bi) and sbb != bi for sbb in stores)]
    R.ob("R20.5", "event_startup | the start status is advanced before the first step that can fail", bool(stores) and not early,
         detail="a fallible step (bb%s) runs before the status is stored: if it fails the evaluation still counts as not started"
                % (early[:3],), site=sb.span["s"])
    # R20.3: the python-facing wrappers propagate the evaluator's errors
    n_wrap = 0
    evm = set(b.name for b in A.evaluator_methods())
    for n in A.facts.order:
        b = A.facts.bodies[n]
        if b.kind != "AssocFn" or n in evm or n.startswith(A.L.evaluator.split("<")[0]):
            continue
        calls = []
        for blk in b.blocks:
            if blk["cleanup"]:
                continue
            t = blk["term"]["t"]
            if t["k"] == "call":
                c = M.callee_of(t)
                if c and (c[1] or c[0]) in evm:
                    cb = A.facts.body(c[1] or c[0])
                    if cb.locals[0]["s"].startswith("std::result::Result<") and cb.locals[0]["s"].endswith(A.L.error_ty + ">"):
                        calls.append((blk["i"], c[1] or c[0]))
        if not calls or b.locals[0]["s"].find("Result") < 0:
            continue
        if "PyPPG2Evaluator" not in n:
            continue
        n_wrap += 1
        run = A.run(b.name, "WRAP", dict(opaque=[c for _, c in calls]))
        okp, errs, div = A.ret_variants(run)
        r = run.ret
        has_err = r is not None and r[0] == "adt" and 1 in adt_variants(r)
        R.ob("R20.3", "%s | propagates Err of %s" % (short(n), ",".join(sorted(set(short(c) for _, c in calls)))), has_err,
             detail="the wrapper cannot return Err although the evaluator call can", site=b.span["s"])
    R.floor("R20.3", "python wrappers of fallible evaluator calls", n_wrap, 5)
    rule_wrapper_fidelity(A, R, "R20.3", ("event_", "add_"))
    R.explanation = ("Trace-partitioned abstract interpretation of the four event functions from each of the %d concrete job "
                     "states and of event_startup from each start status: the accepted set must equal an independently "
                     "derived class, a rejection must be exactly Err(APIError), and the partition run of every rejected "
                     "state must record no store, set/map mutation, signal emission or call into signal processing." % len(A.JS))
    R.assume("unknown job ids are outside the statement (\"on every known job\")")


def rule_failed_predicate_agrees(A, R, rule):
    """the per-state predicate 'failed' (what the cleanup scan, the history and the reports rely on) holds exactly for the states
    the failure, upstream-failure and abort handlers put a job into - no state of a successful or skipped job, none missing"""
    import rules_more
    C = A.classes()
    K = rules_more.kinds(A)
    tos = set()
    for k in (K["failure"], K["upfail"], K["abort"]):
        for f, t in sig_writes(A, k).items():
            tos |= set(t)
    tos &= set(C["Finished"])
    R.ob(rule, "the 'failed' predicate on job states holds exactly for the finished states written by the failure / upstream-failure / abort handlers",
         set(C["FailedLike"]) == tos,
         detail="predicate only: %s; handlers only: %s" % (A.snames(set(C["FailedLike"]) - tos), A.snames(tos - set(C["FailedLike"]))))


# the python-facing name of each evaluator entry point: confirmed by reading src/lib.rs (#[pymethods] impl), one line each
WRAPPERS = {
    "add_node": "add_node",                                   # declares a job
    "add_edge": "depends_on",                                 # declares a dependency (arguments in the same order)
    "event_startup": "event_startup",
    "event_now_running": "event_now_running",
    "event_job_success": "event_job_finished_success",
    "event_job_failure": "event_job_finished_failure",
    "event_job_cleanup_done": "event_job_cleanup_done",
    "event_abort": "abort_remaining",
    "list_upstream_failed_jobs": "query_upstream_failed",
    "jobs_ready_to_run": "query_ready_to_run",
    "next_job_ready_to_run": "next_job_ready_to_run",
    "jobs_running": "query_jobs_running",
    "jobs_ready_for_cleanup": "query_ready_for_cleanup",
    "is_finished": "is_finished",
    "new_history": "new_history",
    "get_job_output": "get_job_output",
}


# equivalent ways to obtain the same report
WRAPPER_ALTERNATIVES = {"next_job_ready_to_run": ("query_ready_to_run",)}


def rule_wrapper_fidelity(A, R, rule, prefixes=None, exclude=None):
    """what python calls is what the evaluator does: every #[pymethods] wrapper calls the evaluator entry point it stands for (and
    no other entry point that changes or reports the evaluation), on every regular path, with its own textual arguments in the
    same order"""
    import rules_more
    evm = dict((short(b.name), b) for b in A.evaluator_methods())
    n = 0
    for nme in A.facts.order:
        b = A.facts.bodies[nme]
        if b.kind != "AssocFn" or "PyPPG2Evaluator" not in nme or "{closure" in nme:
            continue
        w = short(nme)
        if w not in WRAPPERS:
            continue
        if prefixes is not None and not any(w.startswith(p_) for p_ in prefixes):
            continue
        if exclude is not None and any(w.startswith(p_) for p_ in exclude):
            continue
        want = WRAPPERS[w]
        calls = []
        for blk in b.blocks:
            if blk["cleanup"]:
                continue
            t = blk["term"]["t"]
            if t["k"] == "call":
                c = M.callee_of(t)
                tgt = short(c[1] or c[0]) if c else None
                full = (c[1] or c[0]) if c else None
                if tgt in evm and full == evm[tgt].name and evm[tgt].vis == "Public":
                    calls.append((blk["i"], tgt, t))
        n += 1
        mutating = lambda tg: tg.startswith(("event_", "abort_", "add_", "depends_on", "reconsider_"))
        alts = {want} | set(WRAPPER_ALTERNATIVES.get(w, ()))
        mine = [(bi, t) for (bi, tg, t) in calls if tg == want]
        if mutating(want):
            # an event: it is forwarded, and nothing else that changes the evaluation is called in its name
            others = sorted(set(tg for (_bi, tg, _t) in calls if tg != want and mutating(tg)))
            R.ob(rule, "%s | the python-facing wrapper forwards to %s and to no other call that changes the evaluation" % (w, want),
                 bool(mine) and not others,
                 detail=("also calls %s" % others) if others else ("never calls %s" % want), site=b.span["s"])
        else:
            # a report: what is returned derives from the report it stands for, from no other report, and nothing is changed
            others = sorted(set(tg for (_bi, tg, _t) in calls if tg not in alts and not tg.startswith("debug")))
            used = [tg for (_bi, tg, _t) in calls if tg in alts]
            sl = rules_more.backward_slice(b, 0)
            derives = any(evm[tg].name in sl["calls"] for tg in used)
            R.ob(rule, "%s | the python-facing wrapper returns what %s reports (and consults nothing else)" % (w, "/".join(sorted(alts))),
                 bool(used) and derives and not others,
                 detail=("also calls %s" % others) if others else ("the returned value does not derive from %s" % "/".join(sorted(alts))),
                 site=b.span["s"])
        # textual arguments: passed on in their own order
        for (bi, t) in mine[:1]:
            order = []
            for o in t["args"][1:]:
                pl = o.get("copy") or o.get("move")
                if pl is None:
                    order.append(None)
                    continue
                sl = rules_more.backward_slice(b, pl["l"])
                ps = sorted(x for x in sl["params"] if x != 1 and b.locals[x]["s"] in ("&str", "std::string::String", "&std::string::String"))
                order.append(ps[0] if len(ps) == 1 else None)
            strs = [x for x in order if x is not None]
            str_params = [i for i in range(2, b.arg_count + 1) if b.locals[i]["s"] in ("&str", "std::string::String", "&std::string::String")]
            if len(str_params) >= 1 and want != "add_node":
                R.ob(rule, "%s | passes its own textual arguments to %s in the same order" % (w, want), strs == str_params,
                     detail="parameters %s arrive as %s" % (str_params, strs), site=b.span["s"])
            elif want == "add_node":
                R.ob(rule, "%s | passes the job id to %s" % (w, want), strs[:1] == str_params[:1],
                     detail="parameters %s arrive as %s" % (str_params, strs), site=b.span["s"])
    R.floor(rule, "python-facing wrappers with a known counterpart", n, 3)


# =============================================================================================
def phase(C, s):
    if s in C["Finished"]:
        return 3
    if s in C["Running"]:
        return 2
    if s in C["Ready"]:
        return 1
    return 0


def tkey(A, t, f=None, to=None):
    w = t["w"]
    ctx = t["ctx"]
    if ctx[0] == "handler":
        c = "%s handler" % A.kname(ctx[1])
    elif ctx[0] == "event":
        c = ctx[1]
    else:
        c = ctx[1]
    s = "%s | %s | key=%s" % (short(w["fn"]), c, role_str(w["key"]))
    if f is not None:
        s += " | %s -> %s" % (A.sname(f), A.sname(to))
    return s


def check_C17(A, R, tier):
    C = A.classes()
    T = A.transitions()
    ready_f, cleanup_f = set_fields(A)
    sk, fk, ck = event_kinds(A)
    # coverage of the transition relation
    syn = set((n, b) for (n, b, si, sp) in A.syntactic_state_writes())
    seen = set((t["w"]["fn"], t["w"]["bb"]) for t in T)
    R.floor("R17.T", "state-write sites analysed", len(seen), 1)
    for (n, b) in sorted(syn - seen):
        # a site the analysis never reaches is dead under A1 (over-approximation) - still listed
        R.ob("R17.T", "%s bb%d | state write not reached from any analysed entry" % (short(n), b), False,
             detail="the transition relation may be incomplete; the analysed entries do not cover this write")
    R.info["state_write_sites"] = len(seen)
    R.info["transition_facts"] = len(T)
    # ExecOK*: closure of the success handler's to-states
    ok0 = set()
    for f, tos in sig_writes(A, sk).items():
        ok0 |= tos
    R.floor("R17.3", "to-states of the success handler", len(ok0))
    execok = set(ok0)
    changed = True
    while changed:
        changed = False
        for t in T:
            w = t["w"]
            if w["frm"] & execok:
                new = set(w["to"]) - execok
                # only exact (partitioned / refined) pairs extend the closure
                if new:
                    execok |= new
                    changed = True
    bad_after_ok = C["Failed"] | C["UpstreamFailed"]
    npairs = 0
    for t in T:
        w = t["w"]
        site = A.site(w)
        for f in sorted(w["frm"]):
            for to in sorted(w["to"]):
                npairs += 1
                # R17.1 kind never changes
                R.ob("R17.1", tkey(A, t, f, to), A.kind_of(f) == A.kind_of(to),
                     detail="state write changes the job kind", site=site)
                # R17.2 phases are monotone; Ready is entered only from phase 0
                pf, pt = phase(C, f), phase(C, to)
                okp = pt >= pf and not (pt == 1 and pf >= 1 and f != to) and not (pt == 1 and pf == 1)
                R.ob("R17.2", tkey(A, t, f, to), okp,
                     detail="lifecycle phase goes %d -> %d (0 pending, 1 offered, 2 running, 3 finished)" % (pf, pt), site=site)
                # R17.3 success is final
                if f in execok:
                    R.ob("R17.3", tkey(A, t, f, to), to not in bad_after_ok,
                         detail="a job that executed successfully is moved to a failed / upstream-failed state", site=site)
    R.info["transition_pairs"] = npairs
    # R17.4 set <-> state pairing ---------------------------------------------------------------
    pairing(A, R, "R17.4", C["Ready"], ("self", ready_f), "ready")
    pairing(A, R, "R17.4c", C["CleanupOffered"], None, "cleanup", exclude=("self", ready_f), field=cleanup_f)
    # R17.5 derived reports ------------------------------------------------------------------------
    cls = ["Ready", "Running", "Finished"]
    for i in range(len(cls)):
        for j in range(i + 1, len(cls)):
            inter = C[cls[i]] & C[cls[j]]
            R.ob("R17.5", "%s and %s are disjoint" % (cls[i], cls[j]), not inter, detail=str(A.snames(inter)))
    R.ob("R17.5", "Failed subset of Finished", C["Failed"] <= C["Finished"], detail=str(A.snames(C["Failed"] - C["Finished"])))
    R.ob("R17.5", "UpstreamFailed subset of Finished", C["UpstreamFailed"] <= C["Finished"])
    R.ob("R17.5", "Failed and UpstreamFailed are disjoint", not (C["Failed"] & C["UpstreamFailed"]))
    if C["RunningQ"] is not None:
        R.ob("R17.5", "query_jobs_running reports exactly the states that may be finished", C["RunningQ"] == C["RunningAccepted"] == C["RunningF"],
             detail="query: %s / success: %s / failure: %s" % (A.snames(C["RunningQ"]), A.snames(C["RunningAccepted"]), A.snames(C["RunningF"])))
    else:
        R.ob("R17.5", "the states from which success and failure reports are accepted coincide", C["RunningAccepted"] == C["RunningF"])
        pairing(A, R, "R17.4r", C["Running"], ("self", C["RunningSetField"]), "running")
    R.ob("R17.5", "CleanupOffered subset of Finished", C["CleanupOffered"] <= C["Finished"])
    failed2 = set()
    for f, tos in sig_writes(A, fk).items():
        failed2 |= tos
    R.ob("R17.5", "query_failed reports exactly the to-states of the failure handler", failed2 == set(C["Failed"]),
         detail="handler: %s query: %s" % (A.snames(failed2), A.snames(C["Failed"])))
    # is_finished (evaluator) agrees with the per-job predicate
    isf = A.evaluator_fn("is_finished")
    ss = A.uni.fin[A.L.startstatus]
    s0 = A.initial_start_status()
    started = [s for s in ss if s != s0]
    nonfin = frozenset(A.JS) - C["Finished"]
    for s in started:
        sn = A.uni.show(A.L.startstatus, s)
        r1 = A.run(isf.name, "ISF|%s|unfinished" % sn, dict(self_init={A.L.start_field: fin(A.L.startstatus, [s])},
                                                           default_states=fin(A.L.jobstate, nonfin),
                                                           cell_init={"alljobs": fin(A.L.jobstate, nonfin)}))
        stored = [v for v in r1.by_kind("store_self") if v["proj"][:1] == (("f", A.L.start_field),)]
        bad = []
        for fs_ in sorted(C["Finished"]):
            r2 = A.run(isf.name, "ISF|%s|%s" % (sn, A.sname(fs_)), dict(self_init={A.L.start_field: fin(A.L.startstatus, [s])},
                                                                    default_states=fin(A.L.jobstate, [fs_]),
                                                                    cell_init={"alljobs": fin(A.L.jobstate, [fs_])}))
            v2 = r2.ret
            if not (v2 is not None and v2[0] == "fin" and set(v2[2]) == {(1,)}):
                bad.append(A.sname(fs_))
        R.ob("R17.5", "is_finished | %s | all jobs finished => true" % sn, not bad, detail="not decided as true with every job in %s" % bad)
    rule_failed_predicate_agrees(A, R, "R17.5")
    # R17.8: python sees the reports under other names: each of those wrappers returns what the report it stands for returns
    rule_wrapper_fidelity(A, R, "R17.8", exclude=("event_", "add_"))
    # ... and the converse: 'finished' only when every job is finished (the scan covers all jobs)
    from rules_more import rule_finished_means_all
    rule_finished_means_all(A, R, "R17.5")
    # with at least one unfinished job visited, the status is never advanced to its final value
    # (checked as: the only store to the start status in is_finished is dominated by the loop exit)
    # R17.6 start status typestate
    edges = set()
    for b in A.evaluator_methods():
        if b.vis != "Public":
            continue
        name = short(b.name)
        for v in [x for run in (A.startup_runs() if name == "event_startup" else [A.joined_run(b)]) for x in run.by_kind("store_self")]:
            if v["proj"][:1] == (("f", A.L.start_field),) and v["value"][0] == "fin":
                old = v["old"][2] if (v["old"] is not None and v["old"][0] == "fin") else frozenset(ss)
                for o in old:
                    for n_ in v["value"][2]:
                        edges.add((o, n_, name))
    R.floor("R17.6", "stores to the start status", len(edges), 2)
    order = {}
    for s in ss:
        order[s] = None
    # the statuses must form a chain initial -> ... with no way back
    succ = {}
    for (o, n_, name) in edges:
        if o != n_:
            succ.setdefault(o, set()).add(n_)
    def reach_from(x):
        seen, st = set(), [x]
        while st:
            y = st.pop()
            for z in succ.get(y, ()):
                if z not in seen:
                    seen.add(z)
                    st.append(z)
        return seen
    for (o, n_, name) in sorted(edges, key=repr):
        back = o in reach_from(n_) and o != n_
        R.ob("R17.6", "%s | start status %s -> %s" % (name, A.uni.show(A.L.startstatus, o), A.uni.show(A.L.startstatus, n_)),
             (not back) and n_ != s0, detail="the start status can move backwards")
    # R17.7 the events act on the job they were given
    for name in EVENTS:
        runs = A.event_runs(name)
        n = 0
        for s, run in runs.items():
            for w in run.by_kind("write_state"):
                n += 1
                R.ob("R17.7", "%s | %s | state write keyed by the job_id argument" % (name, A.sname(s)), is_role(w["key"], "lookup"),
                     detail="key roles: %s" % role_str(w["key"]), site=A.site(w))
            for v in run.by_kind("push_signal"):
                if v["container"] == "queue":
                    n += 1
                    R.ob("R17.7", "%s | %s | signal targets the job_id argument" % (name, A.sname(s)), is_role(v["key"], "lookup"),
                         detail="key roles: %s" % role_str(v["key"]), site=A.site(v))
        R.floor("R17.7", "writes/emissions of %s" % name, n)
    # R17.0 before startup nothing moves (justifies the Init assumption of the startup run)
    init = C["Init"]
    for b in A.evaluator_methods():
        if b.vis != "Public":
            continue
        name = short(b.name)
        if name in ("event_startup", "abort_remaining", "reconsider_all_jobs"):
            continue
        run = A.run(b.name, "PRE", dict(opaque=list(A.signal_entry_names()), self_init={A.L.start_field: fin(A.L.startstatus, [s0])},
                                        default_states=fin(A.L.jobstate, init),
                                        cell_init={"lookup": fin(A.L.jobstate, init), "alljobs": fin(A.L.jobstate, init)}))
        ws = run.by_kind("write_state")
        sg = [v for v in run.by_kind("push_signal") if v["container"] == "queue"] + run.by_kind("opaque_call")
        R.ob("R17.0", "%s | no job state moves before event_startup" % name, not ws and not sg,
             detail="; ".join("%s at %s" % (short(v["fn"]), A.site(v)) for v in (ws + sg)[:3]))
    R.assume("abort_remaining and the debugging entry reconsider_all_jobs are not called before event_startup "
             "(the python runner only calls them during an evaluation)")
    R.assume("consistency is decided for the observable moments, i.e. between API calls; &mut self excludes observers inside a call")
    R.explanation = ("The transition relation T (every write to the job-state field, %d sites, as exact from->to pairs obtained by "
                     "trace-partitioned abstract interpretation of each signal handler / event from each concrete state) is checked "
                     "against the state classes that the public API itself defines: kinds never change, phases are monotone and "
                     "'offered' is entered once, success is final, the ready/cleanup sets are inserted and removed exactly with the "
                     "states they mirror, the derived reports are disjoint/consistent, the start status only advances." % len(seen))


def run_roles(run, sym):
    """roles of a key symbol as recorded by any fact of the run"""
    cache = run.__dict__.setdefault("_roles", None)
    if cache is None:
        cache = {}
        for k, v in run.facts.items():
            ki = v.get("key")
            if isinstance(ki, tuple) and len(ki) == 2 and isinstance(ki[1], frozenset) and ki[0] is not None:
                cache.setdefault(ki[0], set()).update(ki[1])
            if k[0] == "map_op" and v["op"] == "get" and v["target"][0] == "self":
                pass
        run.__dict__["_roles"] = cache
    return frozenset(cache.get(sym, ()))


def abort_entry(A):
    """(API function that queues the abort kind, its joined run, block of its call into signal processing) -- by behaviour"""
    import rules_more
    K = rules_more.kinds(A)
    ab = A.evaluator_fn("abort_remaining")
    r = A.joined_run(ab)
    calls = [v for v in r.by_kind("opaque_call") if v["fn"] == ab.name]
    return ab, r, (calls[0]["bb"] if len(calls) == 1 else None)


def after_abort_processing(A, v):
    """fact `v` lies in the abort entry point behind the successful return of the signal processing it starts: at that point
    every job is finished (this is what R10.1 establishes: every unfinished job is sent the abort signal, whose handler
    finishes it without an error exit)"""
    ab, r, cb = abort_entry(A)
    if cb is None or v.get("fn") != ab.name or v.get("stack"):
        return False
    return cb != v["bb"] and ab.dominates(cb, v["bb"])


def before_abort_processing(A, v):
    """fact `v` lies in the abort entry point in front of the signal processing it starts, and every regular path from it leads
    through that processing: when the call returns every job is finished (R10.1), and nothing outside can look in between"""
    ab, r, cb = abort_entry(A)
    if cb is None or v.get("fn") != ab.name or v.get("stack") or v["bb"] == cb:
        return False
    import rules_more
    errs = rules_more.error_exit_blocks(A, ab) | rules_more.residual_blocks(ab)
    return not (set(rules_more.returns_of(ab)) & ab.reachable(v["bb"], {cb} | (errs - {v["bb"]})))


def bulk_ops(run, field):
    """operations that change a whole set field of the evaluator at once (clear, assignment, extend, unmodelled &mut use)"""
    out = [v for v in run.by_kind("store_self") if v["proj"][:1] == (("f", field),)]
    out += [v for v in run.by_kind("extend") if v["target"] == ("self", field)]
    return out


def deferred_clear(A, field):
    """the abort entry point empties the set `field` on every regular path behind its signal processing"""
    ab, r, cb = abort_entry(A)
    if cb is None:
        return False
    import rules_more
    errs = rules_more.error_exit_blocks(A, ab) | rules_more.residual_blocks(ab)
    cl = [v for v in bulk_ops(r, field) if v.get("call") == "clear/sort" and v["fn"] == ab.name and not v.get("stack") and after_abort_processing(A, v)]
    if cl:
        reach = ab.reachable(cb, set(v["bb"] for v in cl) | errs)
        if not (set(rules_more.returns_of(ab)) & reach):
            return True
    # ... or in front of it, on every path that leads to the processing
    cl = [v for v in bulk_ops(r, field) if v.get("call") == "clear/sort" and v["fn"] == ab.name and not v.get("stack") and before_abort_processing(A, v)]
    if cl:
        return cb not in ab.reachable(0, set(v["bb"] for v in cl) | errs)
    return False


def pairing(A, R, rule, cls, target, what, exclude=None, field=None):
    """typestate pairing between a state class and a HashSet<String> of the evaluator"""
    H = A.handler_runs()
    import rules_more
    Kp = rules_more.kinds(A)
    Cp = A.classes()
    if field is None and target is not None:
        field = target[1]
    deferred = field is not None and not (cls & Cp["Finished"]) and deferred_clear(A, field)
    runs = [("%s handler/%s" % (A.kname(k), A.sname(s)), run) for (k, s), run in H.items()]
    for name in EVENTS:
        for s, run in A.event_runs(name).items():
            runs.append(("%s/%s" % (name, A.sname(s)), run))
    for b in A.evaluator_methods():
        if b.vis == "Public" and short(b.name) not in EVENTS:
            for run in (A.startup_runs() if short(b.name) == "event_startup" else [A.joined_run(b)]):
                runs.append((short(b.name), run))
    n_enter = n_leave = n_ops = 0
    for (label, run) in runs:
        ops = []
        for v in run.by_kind("set_op"):
            if v["op"] not in ("insert", "remove"):
                continue
            tg = v["target"]
            if target is not None:
                if tg != target:
                    continue
            else:
                if tg[0] not in ("self", "obj") or tg == exclude:
                    continue
                if field is not None and tg[0] == "self" and tg != ("self", field):
                    continue      # another set of the evaluator (e.g. a maintained running set)
            ops.append(v)
        ws = run.by_kind("write_state")
        for w in ws:
            enters = [to for to in w["to"] if to in cls]
            froms_out = [f for f in w["frm"] if f not in cls]
            froms_in = [f for f in w["frm"] if f in cls]
            leaves = [to for to in w["to"] if to not in cls]
            if enters and froms_out:
                n_enter += 1
                ok = any(v["op"] == "insert" and elem_is_key(v["elem"], w["key"]) and connected(A, w, v) for v in ops)
                R.ob(rule, "%s | %s | entering the %s class inserts the id into the %s set" % (short(w["fn"]), label.split("/")[0], what, what),
                     ok, detail="state write %s -> %s has no matching insert (partition %s)" % (A.snames(froms_out), A.snames(enters), label),
                     site=A.site(w))
            if froms_in and leaves:
                n_leave += 1
                ok = any(v["op"] == "remove" and elem_is_key(v["elem"], w["key"]) and connected(A, w, v) for v in ops)
                if not ok and deferred and label.startswith(A.kname(Kp["abort"]) + " handler"):
                    ok = True    # the abort entry point empties the set before it returns; nothing is observable in between
                R.ob(rule, "%s | %s | leaving the %s class removes the id from the %s set" % (short(w["fn"]), label.split("/")[0], what, what),
                     ok, detail="state write %s -> %s has no matching remove (partition %s)" % (A.snames(froms_in), A.snames(leaves), label),
                     site=A.site(w))
        for v in ops:
            n_ops += 1
            # the states the element's job can be in when the operation executes
            at = None
            for (sym, sts, _extra) in v.get("cells", ()):
                if sts is not None and elem_is_key(v["elem"], (sym, run_roles(run, sym))):
                    at = set(sts) if at is None else (at | set(sts))
            if v["op"] == "insert":
                ok = any(elem_is_key(v["elem"], w["key"]) and (set(w["to"]) & cls) and connected(A, w, v) for w in ws)
                ok = ok or (at is not None and at <= cls)
                R.ob(rule, "%s | %s | an id is inserted into the %s set only for a job in the class" % (short(v["fn"]), label.split("/")[0], what),
                     ok, detail="insert although the job is not (moved) in(to) the class (partition %s)" % label, site=A.site(v))
            else:
                ok = any(elem_is_key(v["elem"], w["key"]) and (set(w["frm"]) & cls) and not (set(w["to"]) & cls) and connected(A, w, v) for w in ws)
                ok = ok or (at is not None and not (at & cls))
                R.ob(rule, "%s | %s | an id is removed from the %s set only when the job leaves (or is outside) the class" % (short(v["fn"]), label.split("/")[0], what),
                     ok, detail="remove although the job stays in the class (partition %s)" % label, site=A.site(v))
    # operations on the whole set: only where no job can be in the class
    if field is not None:
        seenb = set()
        for (label, run) in runs:
            for v in bulk_ops(run, field):
                kb = (v["fn"], v["bb"])
                if kb in seenb:
                    continue
                seenb.add(kb)
                ok = (after_abort_processing(A, v) or before_abort_processing(A, v)) and not (cls & Cp["Finished"])
                R.ob(rule, "%s | the %s set is changed as a whole (%s) only where no job can be in the %s class"
                     % (short(v["fn"]), what, v.get("call") or v.get("kind") or "store/extend", what), ok,
                     detail="jobs in the %s class would silently drop out of (or appear in) the reported set" % what, site=A.site(v))
    R.floor(rule, "writes entering the %s class" % what, n_enter)
    R.floor(rule, "writes leaving the %s class" % what, n_leave)
    R.floor(rule, "operations on the %s set" % what, n_ops, 2)


def rule_setup_faithful(A, R, rule, parts=("add_node", "depends_on", "history")):
    """the graph and the history the evaluation works on are what the driver declared:
      add_node    enters the job under exactly its id into the id map (one insertion, keyed by the id parameter, valued by the
                  job's index) and appends exactly one job;
      depends_on  adds the dependency on every regular path (no dependency is dropped as 'implied' or 'redundant');
      history     the constructor stores the history it was given unchanged, and nothing but the constructor ever changes that map
                  (new_history works on a copy)."""
    import rules_more
    if "add_node" in parts:
        b = A.evaluator_fn("add_node")
        r = A.joined_run(b)
        ins = [v for v in r.by_kind("map_op") if v["op"] == "insert" and v["target"] == ("self", A.L.idmap_field)]
        okk = len(ins) == 1 and ins[0]["key"][0] == "str" and all(p_[0] == "param" for p_ in ins[0]["key"][1]) \
            and ins[0]["value"] is not None and ins[0]["value"][0] == "int"
        R.ob(rule, "add_node | the job is entered into the id map once, under its own id, with its index", okk,
             detail="%d insertion(s) into the id map%s" % (len(ins), "" if len(ins) != 1 else ": key %s value %s" % (str(ins[0]["key"])[:80], str(ins[0]["value"])[:40])),
             site=A.site(ins[0]) if ins else b.span["s"])
        pj = r.by_kind("push_job")
        R.ob(rule, "add_node | exactly one job is appended", len(pj) == 1, detail="%d appended" % len(pj), site=b.span["s"])
    if "depends_on" in parts:
        b = A.evaluator_fn("depends_on")
        r = A.joined_run(b)
        ae = [v for v in r.by_kind("add_edge") if v["fn"] == b.name and not v.get("stack")]
        errs = rules_more.error_exit_blocks(A, b) | rules_more.residual_blocks(b)
        blocks = set(v["bb"] for v in ae)
        must = bool(blocks) and not (set(rules_more.returns_of(b)) & b.reachable(0, blocks | errs))
        if not ae:
            # the insertion may sit in a helper: the call that leads to it
            ae2 = [v for v in r.by_kind("add_edge")]
            blocks = set(v["stack"][0][1] for v in ae2 if v.get("stack") and v["stack"][0][0] == b.name)
            must = bool(blocks) and not (set(rules_more.returns_of(b)) & b.reachable(0, blocks | errs))
        R.ob(rule, "depends_on | every declared dependency is added to the graph (on every regular path)", must,
             detail="a regular path returns without adding the edge: the dependency is silently dropped (its downstream is then no "
                    "direct downstream for the cleanup scan, the failure propagation, the history)", site=b.span["s"])
    if "history" in parts:
        ctors = [x for x in A.facts.bodies.values() if x.kind in ("Fn", "AssocFn") and x.locals and x.locals[0]["s"].startswith(A.L.evaluator.split("<")[0])
                 and x.arg_count >= 1 and any("HashMap<std::string::String, std::string::String>" in x.locals[i]["s"] for i in range(1, x.arg_count + 1))]
        R.floor(rule, "constructors that take the history", len(ctors), 1)
        for cb in ctors:
            hp = [i for i in range(1, cb.arg_count + 1) if "HashMap<std::string::String, std::string::String>" in cb.locals[i]["s"]][0]
            # the aggregate that builds the evaluator takes the parameter itself (moved), and nothing is called on the parameter before
            moved = False
            touched = []
            alias = {hp}
            changed = True
            while changed:
                changed = False
                for blk in cb.blocks:
                    for st in blk["stmts"]:
                        if st["k"] == "assign" and st["r"]["k"] == "use" and not st["p"]["p"]:
                            pl = st["r"]["o"].get("move") or st["r"]["o"].get("copy")
                            if pl is not None and not pl["p"] and pl["l"] in alias and st["p"]["l"] not in alias:
                                alias.add(st["p"]["l"])
                                changed = True
            for blk in cb.blocks:
                if blk["cleanup"]:
                    continue
                for st in blk["stmts"]:
                    if st["k"] == "assign" and st["r"]["k"] == "agg":
                        for o in st["r"]["fields"]:
                            pl = o.get("move") or o.get("copy")
                            if pl is not None and pl["l"] in alias and not pl["p"]:
                                moved = True
                    elif st["k"] == "assign" and st["r"]["k"] in ("ref", "rawptr") and st["r"]["p"]["l"] in alias:
                        touched.append(blk["i"])
                t = blk["term"]["t"]
                if t["k"] == "call":
                    for o in t["args"]:
                        pl = o.get("move") or o.get("copy")
                        if pl is not None and pl["l"] in alias:
                            touched.append(blk["i"])
            R.ob(rule, "%s | the history that was passed in is stored as it is" % short(cb.name), moved and not touched,
                 detail="the constructor works on the history before storing it (blocks %s): records can be lost or changed before the "
                        "evaluation has looked at them" % sorted(set(touched))[:4] if touched else "the parameter is not what is stored", site=cb.span["s"])
        # no other code writes the stored history
        from rules_compare import all_runs
        A.startup_runs()
        A.handler_runs()
        bad = []
        for (entry, label), run in all_runs(A):
            for v in run.by_kind("map_op"):
                if v["target"] == ("self", A.L.history_field) and v["op"] in ("insert", "remove"):
                    bad.append(v)
            for v in run.by_kind("store_self"):
                if v["proj"][:1] == (("f", A.L.history_field),):
                    bad.append(v)
        R.ob(rule, "the stored history is never written after construction", not bad,
             detail="%s" % (short(bad[0]["fn"]) if bad else ""), site=A.site(bad[0]) if bad else "")
