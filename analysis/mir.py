"""Loading and basic graph utilities for the MIR facts emitted by ppg-mir-dump.

Nothing in here reasons about pypipegraph2; it is the data layer (bodies, places,
CFG, dominators, natural loops) shared by every rule."""
import json
import re


class Body:
    __slots__ = ("name", "raw", "arg_count", "kind", "vis", "derived", "locals", "blocks",
                 "debug", "span", "promoted_of", "promoted_index", "_preds", "_dom", "_pdom",
                 "local_names", "file")

    def __init__(self, raw):
        self.raw = raw
        self.name = raw["name"]
        self.arg_count = raw["arg_count"]
        self.kind = raw.get("kind", "")
        self.vis = raw.get("vis", "")
        self.derived = raw.get("derived", False)
        self.locals = [l["ty"] for l in raw["locals"]]
        self.blocks = raw["blocks"]
        self.debug = raw.get("debug", [])
        self.span = raw["span"]
        self.promoted_of = raw.get("promoted_of")
        self.promoted_index = raw.get("promoted_index")
        self._preds = None
        self._dom = None
        self._pdom = None
        self.local_names = {}
        for d in self.debug:
            if not d["p"]["p"]:
                self.local_names.setdefault(d["p"]["l"], d["name"])
        self.file = self.span["s"].split(":")[0]

    # ---- CFG -------------------------------------------------------------------------
    def succs(self, bi, include_cleanup=False):
        t = self.blocks[bi]["term"]["t"]
        k = t["k"]
        out = []
        if k == "goto":
            out = [t["t"]]
        elif k == "switch":
            out = [a[1] for a in t["arms"]] + [t["otherwise"]]
        elif k in ("drop", "assert"):
            out = [t["t"]]
        elif k == "call":
            out = [t["t"]] if t["t"] >= 0 else []
        elif k == "other":
            # FalseEdge / FalseUnwind do not occur after drop elaboration at mir-opt-level=0
            m = re.findall(r"bb(\d+)", t["s"])
            out = [int(x) for x in m]
        res = []
        for s in out:
            if s not in res:
                res.append(s)
        return res

    def preds(self):
        if self._preds is None:
            p = {i: [] for i in range(len(self.blocks))}
            for i in range(len(self.blocks)):
                for s in self.succs(i):
                    p[s].append(i)
            self._preds = p
        return self._preds

    def reachable(self, start=0, removed=()):
        removed = set(removed)
        seen = set()
        st = [start]
        while st:
            b = st.pop()
            if b in seen or b in removed:
                continue
            seen.add(b)
            st.extend(self.succs(b))
        return seen

    def dominators(self):
        """Iterative dominator sets (bodies are small enough)."""
        if self._dom is not None:
            return self._dom
        reach = self.reachable()
        order = sorted(reach)
        dom = {b: set(order) for b in order}
        dom[0] = {0}
        preds = self.preds()
        changed = True
        while changed:
            changed = False
            for b in order:
                if b == 0:
                    continue
                ps = [p for p in preds[b] if p in reach]
                if not ps:
                    continue
                new = set.intersection(*(dom[p] for p in ps)) | {b}
                if new != dom[b]:
                    dom[b] = new
                    changed = True
        self._dom = dom
        return dom

    def dominates(self, a, b):
        d = self.dominators()
        return b in d and a in d[b]

    def back_edges(self):
        dom = self.dominators()
        out = []
        for b in dom:
            for s in self.succs(b):
                if s in dom[b]:
                    out.append((b, s))
        return out

    def natural_loop(self, head):
        """Blocks of the natural loop(s) with header `head`."""
        body = {head}
        preds = self.preds()
        for (t, h) in self.back_edges():
            if h != head:
                continue
            st = [t]
            while st:
                x = st.pop()
                if x in body:
                    continue
                body.add(x)
                st.extend(preds[x])
        return body

    def term(self, bi):
        return self.blocks[bi]["term"]["t"]

    def term_span(self, bi):
        return self.blocks[bi]["term"]["span"]

    def local_ty(self, l):
        return self.locals[l]

    def local_name(self, l):
        return self.local_names.get(l, "_%d" % l)


class Facts:
    def __init__(self, path):
        with open(path) as fh:
            raw = json.load(fh)
        self.meta = raw.get("meta", {})
        self.bodies = {}
        self.order = []
        for b in raw["bodies"]:
            body = Body(b)
            self.bodies[body.name] = body
            self.order.append(body.name)
        self.adts = {a["path"]: a for a in raw["adts"]}
        self.traits = raw.get("traits", [])
        self.impls = raw.get("impls", [])

    def body(self, name):
        return self.bodies.get(name)

    def find(self, suffix, kind=None):
        """Bodies whose def-path ends with `suffix` (e.g. '::event_startup')."""
        out = []
        for n in self.order:
            b = self.bodies[n]
            if kind and b.kind != kind:
                continue
            if n.endswith(suffix):
                out.append(b)
        return out

    def promoted(self, owner, idx):
        return self.bodies.get("%s::promoted[%d]" % (owner, idx))

    def closures_of(self, owner):
        pre = owner + "::{closure#"
        return [self.bodies[n] for n in self.order if n.startswith(pre)]


# ---- callee helpers -------------------------------------------------------------------

def callee_of(term):
    """(generic def path, resolved def path or '', is_local) for a call terminator; None for
    indirect calls (fn pointers / closures called through a local)."""
    f = term["f"]
    if "fn" in f:
        return f["fn"], f.get("resolved", ""), f.get("local", False), f.get("fn_generic", f["fn"])
    return None


def callee_name(term):
    c = callee_of(term)
    if c is None:
        return None
    return c[1] or c[0]


# ---- pretty printer (development aid and --explain) --------------------------------------

def fmt_place(p, body=None):
    s = body.local_name(p["l"]) if body else "_%d" % p["l"]
    if body and s != "_%d" % p["l"]:
        s = "%s/_%d" % (s, p["l"])
    for e in p["p"]:
        k = e["k"]
        if k == "deref":
            s = "(*%s)" % s
        elif k == "field":
            s = "%s.%d" % (s, e["i"])
        elif k == "index":
            s = "%s[_%d]" % (s, e["l"])
        elif k == "downcast":
            s = "(%s as %s)" % (s, e["name"] or e["v"])
        else:
            s = "%s{%s}" % (s, e.get("s", k))
    return s


def fmt_operand(o, body=None):
    if "copy" in o:
        return "copy " + fmt_place(o["copy"], body)
    if "move" in o:
        return "move " + fmt_place(o["move"], body)
    if "const" in o:
        if "fn" in o:
            return "fn<%s>" % (o.get("resolved") or o["fn"])
        return "const " + o["const"][:80]
    return str(o)


def fmt_rvalue(r, body=None):
    k = r["k"]
    if k == "use":
        return fmt_operand(r["o"], body)
    if k == "ref":
        return ("&mut " if r["mut"] else "&") + fmt_place(r["p"], body)
    if k == "rawptr":
        return "&raw " + fmt_place(r["p"], body)
    if k == "cast":
        return "%s as %s (%s)" % (fmt_operand(r["o"], body), r["ty"]["s"], r["ck"][:30])
    if k == "binop":
        return "%s(%s, %s)" % (r["op"], fmt_operand(r["a"], body), fmt_operand(r["b"], body))
    if k == "unop":
        return "%s(%s)" % (r["op"], fmt_operand(r["o"], body))
    if k == "discr":
        return "discriminant(%s)" % fmt_place(r["p"], body)
    if k == "agg":
        kd = r["kind"]
        if "adt" in kd:
            head = "%s::%s" % (kd["adt"], kd["vname"])
        elif "tuple" in kd:
            head = "tuple"
        elif "closure" in kd:
            head = "closure<%s>" % kd["closure"]
        else:
            head = str(kd)
        return "%s(%s)" % (head, ", ".join(fmt_operand(f, body) for f in r["fields"]))
    return r.get("s", str(r))


def fmt_term(t, body=None):
    k = t["k"]
    if k == "goto":
        return "goto bb%d" % t["t"]
    if k == "switch":
        return "switchInt(%s) -> [%s, otherwise: bb%d]" % (
            fmt_operand(t["d"], body), ", ".join("%s: bb%d" % (a[0], a[1]) for a in t["arms"]), t["otherwise"])
    if k == "call":
        return "%s = %s(%s) -> bb%d" % (fmt_place(t["dest"], body), fmt_operand(t["f"], body),
                                        ", ".join(fmt_operand(a, body) for a in t["args"]), t["t"])
    if k == "drop":
        return "drop(%s) -> bb%d" % (fmt_place(t["p"], body), t["t"])
    if k == "assert":
        return "assert(%s == %s, %s) -> bb%d" % (fmt_operand(t["cond"], body), t["expected"], t["msg"][:40], t["t"])
    return k + (" " + t.get("s", "") if k == "other" else "")


def dump_body(body, out=None):
    lines = []
    lines.append("fn %s  [%s]  args=%d" % (body.name, body.span["s"], body.arg_count))
    for i, ty in enumerate(body.locals):
        lines.append("  let _%d%s: %s" % (i, ("(" + body.local_names[i] + ")") if i in body.local_names else "", ty["s"]))
    for b in body.blocks:
        if b["cleanup"]:
            continue
        lines.append(" bb%d:" % b["i"])
        for st in b["stmts"]:
            if st["k"] == "assign":
                lines.append("    %s = %s%s" % (fmt_place(st["p"], body), fmt_rvalue(st["r"], body),
                                               "   //exp" if st["span"]["exp"] else ""))
            else:
                lines.append("    " + str(st)[:150])
        lines.append("    %s    // %s" % (fmt_term(b["term"]["t"], body), b["term"]["span"]["s"].split(": ")[0]))
    return "\n".join(lines)


if __name__ == "__main__":
    import sys
    f = Facts(sys.argv[1])
    for n in f.order:
        if any(n.endswith(a) for a in sys.argv[2:]):
            print(dump_body(f.bodies[n]))
