"""Obligations, verdicts, evidence and known-findings plumbing shared by all rules."""
import json
import os
import time

VERIF = os.path.dirname(os.path.dirname(os.path.abspath(__file__)))


class Ob:
    __slots__ = ("rule", "key", "ok", "detail", "site", "what", "skey")

    def __init__(self, rule, key, ok, detail="", site="", what="", skey=None):
        self.rule = rule
        self.skey = ("%s | %s" % (rule, skey)) if skey else None
        self.key = "%s | %s" % (rule, key)
        self.ok = bool(ok)
        self.detail = detail
        self.site = site
        self.what = what

    def as_dict(self):
        return dict(rule=self.rule, key=self.key, structural_key=self.skey, ok=self.ok, detail=self.detail, site=self.site, what=self.what)


class Report:
    def __init__(self, prop, level, design_ref=""):
        self.prop = prop
        self.level = level
        self.obs = []
        self.info = {}
        self.assumptions = []
        self.trusted = []
        self.explanation = ""
        self.design_ref = design_ref
        self.floors = []

    def ob(self, rule, key, ok, detail="", site="", what="", skey=None):
        o = Ob(rule, key, ok, detail, site, what, skey)
        self.obs.append(o)
        return o

    def floor(self, rule, what, count, minimum=1):
        """instance-count floor: a rule that matches nothing must not pass vacuously"""
        self.floors.append((rule, what, count, minimum))
        self.ob(rule, "floor: %s" % what, count >= minimum,
                detail="%d instance(s) of '%s' found, at least %d required (fail closed)" % (count, what, minimum))

    def assume(self, text):
        if text not in self.assumptions:
            self.assumptions.append(text)


def load_known():
    p = os.path.join(VERIF, "known_findings.json")
    if not os.path.isfile(p):
        return {"findings": [], "fixed": []}
    with open(p) as fh:
        return json.load(fh)


def finish(report, tier, t0, facts_info, extra_cov=None, quiet=False):
    known = load_known()
    known_keys = dict(((f["property"], f["key"]), f) for f in known.get("findings", []))
    failing = [o for o in report.obs if not o.ok]
    viol = []
    kn = []
    for o in failing:
        if (report.prop, o.key) in known_keys or (o.skey is not None and (report.prop, o.skey) in known_keys):
            kn.append(o)
        else:
            viol.append(o)
    os.makedirs(os.path.join(VERIF, "evidence", "replay"), exist_ok=True)
    lines = []
    for o in kn:
        lines.append("KNOWN-FINDING: property=%s %s%s" % (report.prop, o.key, ("  [%s]" % o.skey) if o.skey else ""))
    for i, o in enumerate(viol):
        rp = os.path.join("evidence", "replay", "%s-%d.json" % (report.prop, i))
        with open(os.path.join(VERIF, rp), "w") as fh:
            json.dump(dict(property=report.prop, tier=tier, obligation=o.as_dict(), facts=facts_info), fh, indent=1, default=str)
        lines.append("VIOLATION property=%s replay=%s" % (report.prop, rp))
        lines.append("  rule %s: %s" % (o.rule, o.key))
        if o.site:
            lines.append("  at %s" % o.site)
        if o.detail:
            lines.append("  %s" % o.detail)
    # drop stale replay files of this property
    rdir = os.path.join(VERIF, "evidence", "replay")
    for f in os.listdir(rdir):
        if f.startswith(report.prop + "-"):
            try:
                n = int(f[len(report.prop) + 1:-5])
            except ValueError:
                continue
            if n >= len(viol):
                os.remove(os.path.join(rdir, f))
    n_ob = len(report.obs)
    n_ok = sum(1 for o in report.obs if o.ok)
    by_rule = {}
    for o in report.obs:
        r = by_rule.setdefault(o.rule, [0, 0])
        r[0] += 1
        r[1] += 1 if o.ok else 0
    samples = []
    seen_rules = set()
    for o in report.obs:
        if o.rule not in seen_rules:
            seen_rules.add(o.rule)
            samples.append(o.as_dict())
    for o in failing[:10]:
        samples.append(o.as_dict())
    cov = dict(
        obligations=n_ob,
        discharged=n_ok + len(kn) if False else n_ok,
        known_findings=[o.key for o in kn],
        violations=[o.key for o in viol],
        per_rule=dict((k, dict(obligations=v[0], discharged=v[1])) for k, v in sorted(by_rule.items())),
        checker_cmd="./check %s%s" % (report.prop, " --thorough" if tier == "thorough" else ""),
        trusted_base=report.trusted or [
            "rustc nightly MIR construction at -Zmir-opt-level=0",
            "ppg-mir-dump serializer (verif/driver)",
            "the Python abstract interpreter and its library models (verif/analysis/interp.py, models.py)",
            "derived PartialEq on the state enums is structural equality",
            "strategy callbacks do not re-enter the evaluator; one thread at a time (&mut self)"],
        explanation=report.explanation,
        samples=samples,
        exhaustive=True,
        evaluations=n_ob,
        distinct_nontrivial=len(set(o.key for o in report.obs)),
        rule="one obligation per (rule, analysed construct, abstract case); distinct = distinct obligation keys",
        floors=[dict(rule=r, what=w, count=c, minimum=m) for (r, w, c, m) in report.floors],
    )
    cov.update(report.info)
    if extra_cov:
        cov.update(extra_cov)
    ev = dict(property_id=report.prop, tier=tier, seed=int(os.environ.get("VERIF_SEED", "0") or 0), level=report.level,
              coverage=cov, assumptions=report.assumptions, wall_s=round(time.time() - t0, 2), violations=len(viol))
    with open(os.path.join(VERIF, "evidence", "%s.json" % report.prop), "w") as fh:
        json.dump(ev, fh, indent=1, default=str)
    try:
        print("property %s tier=%s: %d obligations, %d discharged, %d known finding(s), %d violation(s)  [%.1fs]"
              % (report.prop, tier, n_ob, n_ok, len(kn), len(viol), time.time() - t0))
        if not quiet:
            for k, v in sorted(by_rule.items()):
                print("  %-8s %4d/%-4d" % (k, v[1], v[0]))
        for l in lines:
            if not quiet or l.startswith("VIOLATION") or l.startswith("KNOWN") or l.startswith("  rule"):
                print(l)
        import sys
        sys.stdout.flush()
    except BrokenPipeError:
        pass
    return 1 if viol else 0
