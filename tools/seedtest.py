#!/usr/bin/env python3
"""Apply a seeded change to /repo, run the given checks, undo the change.  Development aid:
   tools/seedtest.py <seed dir or patch file> <property ids...>"""
import os, subprocess, sys
REPO = "/repo"
VERIF = os.path.dirname(os.path.dirname(os.path.abspath(__file__)))
def main():
    seed = sys.argv[1]
    patch = seed if os.path.isfile(seed) else os.path.join(seed, "patch.diff")
    reverse = "--reverse" in sys.argv
    props = [a for a in sys.argv[2:] if not a.startswith("--")]
    st = subprocess.run(["git", "-C", REPO, "status", "--porcelain", "--untracked-files=no"], capture_output=True, text=True).stdout.strip()
    if st:
        print("repo not clean:", st); return 2
    cmd = ["git", "-C", REPO, "apply"] + (["-R"] if reverse else []) + [os.path.abspath(patch)]
    r = subprocess.run(cmd, capture_output=True, text=True)
    if r.returncode != 0:
        r = subprocess.run(["git", "-C", REPO, "apply", "--3way"] + (["-R"] if reverse else []) + [os.path.abspath(patch)], capture_output=True, text=True)
        if r.returncode != 0:
            print("patch does not apply:", r.stderr[-500:]); subprocess.run(["git", "-C", REPO, "checkout", "--", "."]); return 2
        subprocess.run(["git", "-C", REPO, "reset", "-q"])
    res = {}
    try:
        for p in props:
            r = subprocess.run([os.path.join(VERIF, "check"), p], capture_output=True, text=True, cwd=VERIF)
            v = [l for l in r.stdout.splitlines() if l.startswith("VIOLATION") or l.startswith("  rule")]
            res[p] = (r.returncode, v)
            print("%s exit=%d %s" % (p, r.returncode, r.stdout.splitlines()[0] if r.stdout else r.stderr[-300:]))
            for l in v[:8]:
                print("    " + l)
    finally:
        subprocess.run(["git", "-C", REPO, "checkout", "--", "."])
    return 0
if __name__ == "__main__":
    sys.exit(main())
