#!/usr/bin/env python3
"""Confirm a seeded change independently in a scratch worktree of /repo (outside /repo and /verif):
  1. patch applies to HEAD, crate builds, the baseline tests still pass,
  2. with the demo appended to src/tests.rs the demo test(s) FAIL with the patch,
  3. and PASS without it.
On success the seed is stored as /verif/seeded/<name>/ {patch.diff, demo.rs, meta.json}.
usage: tools/verify_seed.py /tmp/seeds/C20-1 [name]"""
import json, os, re, shutil, subprocess, sys
REPO = "/repo"
WT = os.environ.get("VERIFY_WT", "/tmp/wt-verify")
VERIF = os.path.dirname(os.path.dirname(os.path.abspath(__file__)))

def sh(cmd, **kw):
    return subprocess.run(cmd, shell=True, capture_output=True, text=True, **kw)

def cargo_test(filter_=""):
    r = sh("cd %s && CARGO_TARGET_DIR=%s/target CARGO_NET_OFFLINE=true timeout -k 5 600 cargo test --offline --lib %s -- --test-threads 8 2>&1" % (WT, WT, filter_))
    out = r.stdout
    if r.returncode in (124, 137):
        # a demo that never returns (the seeded change makes the evaluation hang): the tests still running are the failing ones
        sh("pkill -9 -f %s/target/debug/deps/pypipegraph2- || true" % WT)
        hung = re.findall(r"test tests::(?:\w+::)*(\w+) has been running for over", out)
        out += "".join("\ntest tests::%s ... FAILED" % h for h in hung)
        p_ = len(re.findall(r"\.\.\. ok", out))
        return ("hung", p_, len(hung)), out
    m = re.search(r"test result: (\w+)\. (\d+) passed; (\d+) failed", out)
    return (m.group(1), int(m.group(2)), int(m.group(3))) if m else ("build-failed", 0, 0), out

def main():
    seed = sys.argv[1].rstrip("/")
    name = sys.argv[2] if len(sys.argv) > 2 else os.path.basename(seed)
    head = sh("git -C %s rev-parse HEAD" % REPO).stdout.strip()
    if not os.path.isdir(WT):
        r = sh("git -C %s worktree add -q %s HEAD" % (REPO, WT))
        if r.returncode: print(r.stderr); return 2
    sh("cd %s && git checkout -q --detach %s && git checkout -- . && git clean -fdq -e target" % (WT, head))
    patch = os.path.join(seed, "patch.diff")
    demo = open(os.path.join(seed, "demo.rs")).read()
    meta = json.load(open(os.path.join(seed, "meta.json")))
    r = sh("cd %s && git apply %s" % (WT, patch))
    if r.returncode:
        r = sh("cd %s && git apply --3way %s && git reset -q" % (WT, patch))
        if r.returncode:
            print("FAIL: patch does not apply to HEAD:", r.stderr[-400:]); return 1
        sh("cd %s && git diff > %s/rebased.diff" % (WT, seed))
        patch = os.path.join(seed, "rebased.diff")
    (res, p, f), out = cargo_test()
    if res != "ok" or p < 74:
        print("FAIL: baseline with patch: %s passed=%d failed=%d\n%s" % (res, p, f, out[-1500:])); return 1
    base = "with patch: %d baseline tests pass" % p
    tests = os.path.join(WT, "src", "tests.rs")
    orig = open(tests).read()
    names = re.findall(r"fn\s+(\w+)\s*\(\s*\)", "\n".join(l for l in demo.splitlines()))
    tnames = re.findall(r"#\[test\]\s*(?:#\[[^\]]*\]\s*)*fn\s+(\w+)", demo)
    open(tests, "w").write(orig + "\n" + demo + "\n")
    (res1, p1, f1), out1 = cargo_test()
    failing = re.findall(r"test tests::(?:\w+::)*(\w+) \.\.\. FAILED", out1)
    if res1 == "build-failed" and ("SIGABRT" in out1 or "stack overflow" in out1 or "SIGSEGV" in out1):
        # the test process died: attribute the crash to the demo test(s) by running them alone
        failing = []
        for tn in tnames:
            (r_, p_, f_), o_ = cargo_test("tests::" + tn)
            if r_ != "ok" or "SIGABRT" in o_ or "stack overflow" in o_:
                failing.append(tn)
        res1 = "crashed"
    elif res1 == "build-failed":
        print("FAIL: demo does not build with patch\n" + out1[-2000:]); return 1
    demo_failed = [t for t in tnames if t in failing]
    other_failed = [t for t in failing if t not in tnames]
    if not demo_failed:
        print("FAIL: demo does not fail with the patch (passed=%d failed=%d)" % (p1, f1)); return 1
    # without the patch
    sh("cd %s && git apply -R %s" % (WT, patch))
    (res2, p2, f2), out2 = cargo_test()
    failing2 = re.findall(r"test tests::(?:\w+::)*(\w+) \.\.\. FAILED", out2)
    sh("cd %s && git checkout -- . && git clean -fdq -e target" % WT)
    if res2 != "ok" or failing2:
        print("FAIL: demo does not pass without the patch: %s %r\n%s" % (res2, failing2, out2[-1500:])); return 1
    dst = os.path.join(VERIF, "seeded", name)
    os.makedirs(dst, exist_ok=True)
    shutil.copy(patch, os.path.join(dst, "patch.diff"))
    shutil.copy(os.path.join(seed, "demo.rs"), os.path.join(dst, "demo.rs"))
    meta["confirmed"] = dict(base_commit=head, ran=[
        "git worktree of /repo HEAD at %s; git apply patch.diff; cargo test --offline --lib -> %s" % (WT, base),
        "append demo.rs to src/tests.rs; cargo test --offline --lib -> demo tests failing with patch: %s (other failing: %s)" % (demo_failed, other_failed),
        "git apply -R patch.diff; cargo test --offline --lib -> all %d tests pass (demo included)" % p2])
    meta["demo_tests"] = tnames
    json.dump(meta, open(os.path.join(dst, "meta.json"), "w"), indent=1)
    print("OK %s: %s; demo fails with patch %s; passes without (%d tests)" % (name, base, demo_failed, p2))
    return 0

if __name__ == "__main__":
    sys.exit(main())
