#!/bin/bash
# tools/ingest.sh C20-5 C20-6 ...   confirm freshly delivered seeds from /tmp/seeds in a scratch worktree (tools/verify_seed.py),
# store the confirmed ones under seeded/, and run every check against them on scratch copies (tools/corpus.py)
cd "$(dirname "$0")/.."
for s in "$@"; do
  if [ -d ${SEEDS_DIR:-/tmp/seeds}/$s ]; then tools/verify_seed.py ${SEEDS_DIR:-/tmp/seeds}/$s 2>&1 | tail -1; fi
done
ok=""
for s in "$@"; do [ -d seeded/$s ] && ok="$ok $s"; done
[ -n "$ok" ] && python3 tools/corpus.py --seeds $ok
