#!/bin/bash
# tools/ingest.sh C20-3 C20-4 ...   verify freshly delivered seeds from /tmp/seeds and add them to the matrix
cd "$(dirname "$0")/.."
for s in "$@"; do
  if [ -d /tmp/seeds/$s ]; then tools/verify_seed.py /tmp/seeds/$s 2>&1 | tail -1; fi
done
ok=""
for s in "$@"; do [ -d seeded/$s ] && ok="$ok $s"; done
[ -n "$ok" ] && tools/seed_matrix.py $ok
