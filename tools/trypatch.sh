#!/bin/bash
# tools/trypatch.sh <patch or 'sed:<expr>'> <property ids...>: apply an ad-hoc change to a scratch copy of /repo and run checks on the copy
set -e
V="$(cd "$(dirname "$0")/.." && pwd)"
P="$1"; shift
S=$(mktemp -d /tmp/ppg-try-XXXX)
rsync -a --exclude target --exclude .git /repo/ $S/repo/
if [[ "$P" == sed:* ]]; then sed -i "${P#sed:}" $S/repo/src/engine.rs; else (cd $S/repo && patch -p1 -s < "$P"); fi
diff -u /repo/src/engine.rs $S/repo/src/engine.rs | head -${DIFFLINES:-30} || true
for p in "$@"; do VERIF_REPO=$S/repo $V/check $p | grep -v "^  R\|^KNOWN" | head -${LINES_OUT:-8}; done
rm -rf $S
