#!/usr/bin/env python3
"""Run every check against every confirmed seeded change (applied to /repo, undone afterwards) and record which
properties' checks report a violation.  Writes seeded/MATRIX.json and the 'caught_by' field of each meta.json."""
import json, os, re, subprocess, sys
V = os.path.dirname(os.path.dirname(os.path.abspath(__file__)))
REPO = "/repo"
def sh(cmd, **kw):
    return subprocess.run(cmd, shell=True, capture_output=True, text=True, **kw)
def main():
    only = sys.argv[1:]
    seeds = sorted(d for d in os.listdir(os.path.join(V, "seeded")) if os.path.isdir(os.path.join(V, "seeded", d)))
    mpath = os.path.join(V, "seeded", "MATRIX.json")
    matrix = json.load(open(mpath)) if os.path.isfile(mpath) else {}
    if sh("git -C %s status --porcelain --untracked-files=no" % REPO).stdout.strip():
        print("repo not clean"); return 2
    for s in seeds:
        if only and s not in only:
            continue
        d = os.path.join(V, "seeded", s)
        r = sh("git -C %s apply %s/patch.diff" % (REPO, d))
        if r.returncode:
            r = sh("git -C %s apply --3way %s/patch.diff && git -C %s reset -q" % (REPO, d, REPO))
            if r.returncode:
                print(s, "patch does not apply"); sh("git -C %s checkout -- ." % REPO); continue
        try:
            out = sh("./check --all", cwd=V).stdout
        finally:
            sh("git -C %s checkout -- ." % REPO)
        caught = {}
        cur = None
        for l in out.splitlines():
            m = re.match(r"property (C\d+) tier=\w+: (\d+) obligations, (\d+) discharged, (\d+) known finding\(s\), (\d+) violation", l)
            if m:
                cur = m.group(1)
                if int(m.group(5)) > 0:
                    caught[cur] = []
            m = re.match(r"\s+rule (R[\w.]+): (.*)", l)
            if m and cur in caught and len(caught[cur]) < 3:
                caught[cur].append(m.group(2)[:160])
        meta = json.load(open(os.path.join(d, "meta.json")))
        prop = meta.get("property") or s.split("-")[0]
        matrix[s] = dict(property=prop, caught_by=sorted(caught), own_check_fires=prop in caught, rules=caught)
        meta["caught_by"] = sorted(caught)
        json.dump(meta, open(os.path.join(d, "meta.json"), "w"), indent=1)
        print("%-8s own=%-5s caught_by=%s" % (s, prop in caught, sorted(caught)))
        json.dump(matrix, open(mpath, "w"), indent=1)
    return 0
if __name__ == "__main__":
    sys.exit(main())
