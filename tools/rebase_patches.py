#!/usr/bin/env python3
"""Seeded changes and refactorings were written against an earlier /repo commit.  After a `fix:` commit some no longer apply;
this re-bases them (git rebase in a scratch worktree under /tmp, removed afterwards): patch.diff is replaced by the diff against
the current HEAD, the original is kept as patch.orig.diff.   tools/rebase_patches.py [base-commit]"""
import os, subprocess, sys, shutil, glob
V = os.path.dirname(os.path.dirname(os.path.abspath(__file__)))
REPO = "/repo"
def sh(cmd, **kw):
    return subprocess.run(cmd, shell=True, capture_output=True, text=True, **kw)
def main():
    base = sys.argv[1] if len(sys.argv) > 1 else "2c59faa"
    head = sh("git -C %s rev-parse HEAD" % REPO).stdout.strip()
    wt = "/tmp/wt-rebase"
    sh("git -C %s worktree remove --force %s" % (REPO, wt))
    sh("git -C %s worktree add -q --detach %s %s" % (REPO, wt, head))
    try:
        for patch in sorted(glob.glob(os.path.join(V, "seeded", "*", "patch.diff")) + glob.glob(os.path.join(V, "seeded", "refactorings", "*", "patch.diff"))):
            name = os.path.basename(os.path.dirname(patch))
            sh("cd %s && git checkout -q --detach %s && git checkout -- . && git clean -fdq" % (wt, head))
            if sh("cd %s && git apply --check %s" % (wt, patch)).returncode == 0:
                continue
            sh("cd %s && git checkout -q --detach %s" % (wt, base))
            r = sh("cd %s && git apply %s" % (wt, patch))
            if r.returncode:
                print(name, "does not apply to the base either:", r.stderr[-200:]); continue
            sh("cd %s && git -c user.name=x -c user.email=x@x commit -qam tmp" % wt)
            r = sh("cd %s && git -c user.name=x -c user.email=x@x rebase -q --onto %s %s" % (wt, head, base))
            if r.returncode:
                print(name, "CONFLICT on rebase:", (r.stdout + r.stderr)[-300:]); sh("cd %s && git rebase --abort" % wt); continue
            d = sh("cd %s && git diff %s HEAD" % (wt, head)).stdout
            shutil.copy(patch, patch.replace("patch.diff", "patch.orig.diff"))
            open(patch, "w").write(d)
            print(name, "rebased")
    finally:
        sh("git -C %s worktree remove --force %s" % (REPO, wt))
if __name__ == "__main__":
    main()
