#!/usr/bin/env python3
"""Regenerate MANIFEST.json from the table below (claims and not-applicable reasons live here)."""
import json, os
V = os.path.dirname(os.path.dirname(os.path.abspath(__file__)))
NOTE = ("Trusted: rustc MIR construction (nightly, mir-opt-level=0), the serializer in driver/, the Python abstract interpreter and its "
        "std/petgraph models, structural derived PartialEq, strategy callbacks not re-entering the evaluator, single-threaded use (&mut self). "
        "Fails closed on a missing anchor, an unresolvable tracked callee or a rule whose instance count drops below its floor.")
CLAIMS = {
 "C20": ("proof", "Decides the whole statement: for each of the four job events and each reachable concrete job state (and event_startup for each start status) the accepted set equals an independently derived class, a rejection is exactly Err(APIError), and the abstract run of every rejected call records no store, set/map mutation, signal emission or call into signal processing; the Python wrappers propagate the error. All MIR paths, no bound.",
         "finite-enum abstract interpretation of MIR with trace partitioning; effect analysis", "4/C20"),
 "C17": ("proof", "Decides the statement for the observable moments (between API calls): the complete transition relation (every write to the job-state field, as exact from->to pairs) is checked for kind preservation, monotone phases with a single offer, finality of success, exact pairing of the ready/cleanup sets with their state classes, disjoint/consistent derived reports and a forward-only start status.",
         "typestate rules over the transition relation extracted by abstract interpretation of MIR", "4/C17"),
 "C07": ("other", "Decides the propagation and typestate clauses: the failure and upstream-failure handlers send the upstream-failure signal to every direct downstream (for-all-neighbours loop, must-emit, no early exit, must-reach on taken edges); upstream-failed states are written only by that handler on its own target, only from never-offered states, are final, and the signal goes only to direct downstreams of a job just marked failed. A not-yet-started job told of an upstream failure ends upstream-failed on every path; the requirement summary never answers 'not needed' from inside its loop (an upstream-failed sibling cannot hide a consumer). One known finding (F7). Not decided: that jobs without failed ancestors behave exactly as in the failure-free run.",
         "typestate + CFG path rules (for-all-neighbour loops, must-pass on abstractly taken edges) over extracted protocol facts", "4/C07"),
 "C13": ("other", "Safety clauses decided: the only insertion into the cleanup set is guarded by a loop over all direct downstreams whose per-state effect on its monotone flags is computed by abstract interpretation of one iteration for each of the 35 states; offer entered only from 'executed successfully', left only by the acknowledgement handler, final afterwards; set membership paired with the state. 'Not forgotten' as a necessary condition: every finishing write announces the job and the announcement handler considers every upstream.",
         "abstract interpretation of loop iterations (monotone-flag conjunction) + typestate/path rules", "4/C13"),
 "C10": ("other", "Clauses 1-2 decided: abort_remaining, analysed with the jobs in each concrete state, collects every unfinished job on every path, turns it into the abort signal, runs the signal processor and passes through is_finished(); the abort handler from each of the 35 states ends in an aborted/finished state, emits nothing, has no error exit and removes offered jobs from the ready set. Clause 3 decided up to new_history's start-status check and the aborted/failed arms of its loops (C08/C09 rules); its remaining internal-error exits need inter-job invariants.",
         "trace-partitioned abstract interpretation + must-path rules", "4/C10"),
 "C05": ("other", "Clauses 2-3 decided (each job started at most once: phase typestate over the complete transition relation; a finished evaluation has nothing ready or running: ready-set pairing, disjoint classes, running report is a scan). Wake-up as necessary conditions: finishing announces the job, the announcement reconsiders every direct downstream, emitted signals are moved into the queue, the requirement summary never passes over an undecided downstream nor answers 'not needed' early, a job finished without having run reconsiders its parked upstream Ephemerals on every path and for every delayed state, and every change of the 'needed' flags of a job's incoming dependencies is followed by reconsidering its direct upstreams (judged per validation verdict). Liveness itself is not decided.",
         "typestate rules + for-all-neighbour/must-pass CFG rules", "4/C05"),
 "C02": ("other", "Necessary condition for the gate clause: functions behaving as 'all direct upstreams finished' are identified by abstractly running one loop iteration per neighbour state; every emission of the ready signal must know that such a gate returned true for the same job or come from a state only entered under the gate; only the ready handler enters the offered class; finished states are stable. Further necessary conditions: failures reach every direct downstream; the cleanup offer waits for every direct downstream; an undecided consumer is never counted as 'does not need the Ephemeral'; a parked Ephemeral is skipped only if, for every state a direct downstream can be in from which it can still come to run, the skip is blocked (one known finding, F9: a validated Ephemeral consumer that is still waiting for its upstreams does not block). Not decided: requirement propagation across the graph.",
         "predicate summaries by abstract interpretation + dominance/ghost-fact rule on emissions", "4/C02"),
 "C19": ("other", "Decides 'no internal limit' structurally: no recursion (strongly connected component of the resolved call graph incl. closures and fn items) reachable from the public API; every integer comparison that decides an error exit compares a constant-step counter with a bound that scales with a collection length (interprocedural backward slice); graph-library algorithms called are from a vetted list of iterative implementations; exhaustive worklist walks over graph neighbours keep a visited set (otherwise exponential in the depth of layered graphs: two defects found and fixed); no constant cut-off (take/skip/truncate/chunks with a constant > 1) in API-reachable code. Not decided: that the size-scaled round limit is large enough for every graph shape.",
         "call-graph SCC analysis + interprocedural dataflow slice of limit comparisons", "4/C19"),
 "C08": ("other", "Mechanism of each sentence decided over all paths: history_output becomes Some only in the success event (named running job, never on a path that constructs an error) and in the skip handler (recorded value only); new_history, run abstractly for every final point (state, no output, started), removes both own records on every path and writes none; with the downstream in any failed-like state no per-dependency record is written; own records come and go in pairs.",
         "string/key provenance analysis (A4) with trace partitions over final points", "4/C08"),
 "C09": ("other", "First sentence decided: for every final point (upstream-failed/aborted, never started - the ghost bit 'passed Running' identified with a NodeInfo bool field set exactly on entering Running) new_history reaches no removal keyed by the job and rewrites none of its per-dependency records. Resume equivalence is not decided.",
         "string/key provenance analysis with ghost-bit partitions", "4/C09"),
 "C11": ("other", "Necessary (value provenance): at every insertion of new_history the output record of K holds K's history_output (or old record), the input-list record the strategy's current list of K, a per-dependency record (A,B) A's current output when there is one (on every path) and otherwise the record it was validated against; the reported string reaches history_output by move only and get_job_output returns that field.",
         "string/key provenance dataflow (A4) + must-path rule", "4/C11"),
 "C12": ("other", "Necessary (writer/reader agreement): per key class the template new_history writes equals the templates every reader looks up, and the written quantity is of the same provenance class as what the reader compares the record with.",
         "cross-checking of writer and reader key templates / provenance classes", "4/C12"),
 "C18": ("other", "Decides 'every record is old or current' and 'absent untouched': the returned map is a clone of the input that only passes drain/filter/collect and is afterwards only written under keys built from present jobs/edges. The filter closure is analysed with its id lookups forced to hit/miss: both present -> exactly the edge test; an absent endpoint -> exactly the superseded-multi-output filter, which must be live (shape analysis of lookup vs stored keys) and fed by every present job.",
         "provenance + string-shape analysis; forced-outcome analysis of the filter closure", "4/C18"),
}
CLAIMS.update({
 "C15": ("other", "Decides the mechanism: every PartialEq call on strings in every analysed run is classified by the provenance of its operands - two output records (recorded or current) are never compared textually; implementations of the comparison may use equality only as a shortcut to 'unaltered'; shielding is decided by analysing the dependency check with the comparison forced to each answer (and its cached flag re-read); the changed-output error needs the answer 'altered'. Order independence under such comparisons is not decided.",
         "provenance classification of comparison call sites + forced-outcome abstract interpretation", "4/C15"),
 "C16": ("other", "Local clauses decided by trace-partitioned abstract interpretation of the success event: the changed-output error is constructed at one site, reachable exactly from the running states of a validated Ephemeral (computed from the transition relation), only after is_history_altered(recorded output of the job, reported output) answered 'altered'; on that path the failure signal for the same job is queued, no success is signalled, nothing is recorded, the error is returned, and the failure reaches every direct downstream.",
         "trace-partitioned abstract interpretation with ghost facts for strategy answers", "4/C16"),
 "C03": ("other", "Necessary conditions that each change detector reaches the decision: the startup classification, analysed with a detector's outcome forced (input-name list differs / result missing / no own record), moves the job on every path to a state from which it is never re-validated; the validation loop, analysed one iteration at a time for each upstream state and both answers of the dependency check, cannot answer 'validated' with an invalidated dependency or an undecided upstream; jobs without cleanup are skipped only under the 'validated' verdict; records left by failed/interrupted attempts cannot vouch for the job (C08/C09 rules).",
         "forced-outcome abstract interpretation + per-iteration loop summaries", "4/C03"),
 "C06": ("other", "Necessary conditions over all paths: state writes keep the kind; explicit panics outside the public API's argument checks are unreachable in the abstraction; unwraps are guarded (neighbour relation, string-shape facts, stored topological order); APIError / changed-output error only where documented; self-addressed signals and event signals are accepted by the receiving handler in the state they are sent in; emissions whose repetition would be rejected cancel pending consider signals; new_history cannot fail for any state a job without output can end in. The InternalError arms that need inter-job invariants are listed, not judged (F7 is reported under C07).",
         "composition of abstract-interpretation reachability, emitter/handler agreement and guard rules", "4/C06"),
})
CLAIMS["C04"] = ("other", "Decides the clauses whose truth is in the shape of the code (necessary conditions, not minimality of the executed set): Ephemerals nobody can need are taken out of the graph at startup (complete candidate set, iterated to the fixpoint, no neighbour query after removal) and marked finished, finished jobs are never offered; a skippable job is offered only from an invalidated state or - Ephemerals - from a validated one under the single 'needed' answer of the requirement summary; that answer is given only for a dependency flagged as needed or a downstream that has to run; 'needed' is handed on transitively only through Ephemerals, and a needed validated Ephemeral marks all its incoming dependencies; an output judged unaltered does not invalidate a dependency and without an altered or missing record the validation verdict is never 'invalidated'. Not decided: exactness of the dependency flags across the graph.",
                 "forced-outcome abstract interpretation, per-iteration loop summaries over all job states x edge flags, typestate rules", "4/C04")
PENDING = {}
NA = {
 "C01": "equality of every materialised output with a from-scratch build over chains of edited evaluations relates runtime values and whole histories; no sound static argument in reach - its structural ingredients are decided under C03, C08, C11, C18",
 "C14": "independence of schedule and declaration order is a confluence property of the signal fixpoint; a lint for order-sensitive constructs can list suspects but cannot decide it either way",
}
def main():
    props = [json.loads(l) for l in open(os.path.join(V, "properties.jsonl"))]
    import importlib.util, sys
    checks = []
    for p in props:
        pid = p["id"]
        if pid in CLAIMS:
            cat, text, tech, ref = CLAIMS[pid]
            checks.append(dict(property_id=pid, quick_cmd="./check %s" % pid, thorough_cmd="./check %s --thorough" % pid,
                               evidence_file="evidence/%s.json" % pid, replay_cmd_template="./check --explain {path}", engine="ppg-static",
                               level_claimed=dict(category=cat, text=text, design_ref="DESIGN.md section " + ref), level_note=NOTE, technique=tech))
    na = []
    for p in props:
        pid = p["id"]
        if pid in CLAIMS:
            continue
        na.append(dict(property_id=pid, reason=NA.get(pid) or PENDING.get(pid) or "check not built yet (work in progress; see DESIGN.md section 4)"))
    m = dict(version=1, setup_cmd="./setup.sh",
             hooks=dict(guard="tyberiusprime_pypipegraph2_verif",
                        enable="none needed: the checks are static and read the unmodified source; the extraction passes --cfg tyberiusprime_pypipegraph2_verif so that guarded code would be analysed too",
                        baseline_off_cmd="cd /repo && cargo test --workspace --no-fail-fast --offline", source_commits=[], add_only=True),
             engines=[dict(name="ppg-static", path="analysis/", serves_properties=sorted(CLAIMS),
                           kind_free_text="static analysis: rustc_private MIR serializer + Python abstract interpretation (finite enum domain, string/key provenance), CFG path rules, call graph")],
             checks=checks, not_applicable=na,
             notes="Static analysis only: every check re-extracts MIR facts from /repo's current working tree (cache keyed by the content hash of all build inputs) and decides rules over them; nothing of the engine is executed.")
    json.dump(m, open(os.path.join(V, "MANIFEST.json"), "w"), indent=1)
    print("claimed", len(checks), "not applicable", len(na))
if __name__ == "__main__":
    main()
