#!/usr/bin/env python3
"""Apply each behaviour-preserving refactoring to /repo, run every check, undo: every check must stay silent."""
import json, os, re, subprocess, sys
V = os.path.dirname(os.path.dirname(os.path.abspath(__file__)))
REPO = "/repo"
def sh(cmd, **kw):
    return subprocess.run(cmd, shell=True, capture_output=True, text=True, **kw)
def main():
    dirs = sys.argv[1:]
    bad = 0
    for d in dirs:
        name = os.path.basename(d.rstrip("/"))
        r = sh("git -C %s apply %s/patch.diff" % (REPO, d))
        if r.returncode:
            print(name, "patch does not apply:", r.stderr[-200:]); sh("git -C %s checkout -- ." % REPO); continue
        try:
            out = sh("./check --all", cwd=V)
        finally:
            sh("git -C %s checkout -- ." % REPO)
        alarms = {}
        cur = None
        for l in out.stdout.splitlines():
            m = re.match(r"property (C\d+) tier=\w+: (\d+) obligations, (\d+) discharged, (\d+) known finding\(s\), (\d+) violation", l)
            if m:
                cur = m.group(1)
                if int(m.group(5)) > 0:
                    alarms[cur] = [int(m.group(5))]
            m = re.match(r"\s+rule (R[\w.]+|A\d): (.*)", l)
            if m and cur in alarms and len(alarms[cur]) < 3:
                alarms[cur].append(m.group(1) + ": " + m.group(2)[:150])
        if out.returncode not in (0, 1) or not out.stdout.strip():
            alarms["CRASH"] = [out.stderr[-600:]]
        print("%-8s %s" % (name, "silent" if not alarms else "ALARMS %s" % sorted(alarms)))
        for k, v in alarms.items():
            for x in v[1:] if k != "CRASH" else v:
                print("      %s %s" % (k, x))
        bad += 1 if alarms else 0
    return 1 if bad else 0
if __name__ == "__main__":
    sys.exit(main())
