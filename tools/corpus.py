#!/usr/bin/env python3
"""Run every check against every seeded change and every behaviour-preserving refactoring WITHOUT touching /repo:
each patch is applied to a scratch copy of /repo's current sources (outside /repo and /verif, removed afterwards), the
facts are extracted from the copy (sequentially, cached by patch+tree hash under .cache/corpus), and all checks are run
on each fact file in parallel.

  tools/corpus.py [--seeds] [--refactorings] [name ...]     (default: both corpora, all items)

Writes seeded/MATRIX.json (seeds) and seeded/refactorings/RESULT.json (refactorings); prints one line per item.
Development aid; the registered checks never depend on it."""
import hashlib
import json
import multiprocessing
import os
import shutil
import subprocess
import sys
import tempfile
import time

V = os.path.dirname(os.path.dirname(os.path.abspath(__file__)))
sys.path.insert(0, os.path.join(V, "analysis"))
REPO = "/repo"


def _analyse(job):
    (name, kind, facts_path) = job
    import framework
    import protocol
    import main as M
    from interp import Imprecision
    reg = M.registry()
    known = framework.load_known()
    kk = set((f["property"], f["key"]) for f in known.get("findings", []))
    out = {}
    t0 = time.time()
    try:
        A = protocol.Analysis(facts_path, jobs=1)
    except Exception as e:
        return (name, kind, {"A0": ["cannot load facts: %s" % e]}, 0.0)
    for prop in sorted(reg):
        R = framework.Report(prop, "other")
        try:
            reg[prop](A, R, "quick")
        except Imprecision as e:
            R.ob("A0", "fail closed: %s" % e, False)
        except Exception as e:
            R.ob("A0", "internal error %s: %s" % (type(e).__name__, e), False)
        for r in A.runs.values():
            if r.err:
                R.ob("A1", "analysis error %s | %s" % (r.entry.split("::")[-1], r.label), False, detail=r.err)
        failing = [o for o in R.obs if not o.ok and (prop, o.key) not in kk and not (o.skey and (prop, o.skey) in kk)]
        if failing:
            out[prop] = [o.key[:200] for o in failing][:4]
    return (name, kind, out, round(time.time() - t0, 1))


def main():
    import extract
    args = sys.argv[1:]
    want_seeds = "--seeds" in args or "--refactorings" not in args
    want_ref = "--refactorings" in args or "--seeds" not in args
    only = [a for a in args if not a.startswith("--")]
    sd = os.path.join(V, "seeded")
    items = []
    if want_seeds:
        for s in sorted(os.listdir(sd)):
            p = os.path.join(sd, s, "patch.diff")
            if os.path.isfile(p) and os.path.isfile(os.path.join(sd, s, "meta.json")):
                items.append((s, "seed", p))
    if want_ref:
        rd = os.path.join(sd, "refactorings")
        for s in sorted(os.listdir(rd)) if os.path.isdir(rd) else []:
            p = os.path.join(rd, s, "patch.diff")
            if os.path.isfile(p):
                items.append((s, "refactoring", p))
    if only:
        items = [it for it in items if it[0] in only]
    cdir = os.path.join(V, ".cache", "corpus")
    os.makedirs(cdir, exist_ok=True)
    extract.ensure_driver()
    base_hash = extract.input_hash("lib")
    sys.path.insert(0, os.path.join(V, "analysis"))
    import selftest
    t0 = time.time()
    scratch = tempfile.mkdtemp(prefix="ppg-corpus-")
    try:
        have, skipped = selftest.extract_many([(n_, p_) for (n_, k_, p_) in items], REPO, workers=12)
        kinds_ = dict((n_, k_) for (n_, k_, p_) in items)
        jobs = [(n_, kinds_[n_], fp_) for (n_, fp_) in have]
        base_hash = extract.input_hash("lib")
        print("extracted %d item(s) in %.0fs, analysing ..." % (len(jobs), time.time() - t0), flush=True)
        ctx = multiprocessing.get_context("fork")
        with ctx.Pool(min(16, max(1, len(jobs)))) as pool:
            res = pool.map(_analyse, jobs, chunksize=1)
    finally:
        shutil.rmtree(scratch, ignore_errors=True)
    # old corpus facts of other base hashes are dropped
    for f in os.listdir(cdir):
        if base_hash not in f:
            os.remove(os.path.join(cdir, f))
    mpath = os.path.join(sd, "MATRIX.json")
    matrix = json.load(open(mpath)) if os.path.isfile(mpath) else {}
    rpath = os.path.join(sd, "refactorings", "RESULT.json")
    rres = json.load(open(rpath)) if os.path.isfile(rpath) else {}
    bad = 0
    for (name, kind, out, dt) in sorted(res):
        if kind == "seed":
            meta = json.load(open(os.path.join(sd, name, "meta.json")))
            prop = meta.get("property") or name.split("-")[0]
            matrix[name] = dict(property=prop, caught_by=sorted(out), own_check_fires=prop in out, rules=out)
            meta["caught_by"] = sorted(out)
            json.dump(meta, open(os.path.join(sd, name, "meta.json"), "w"), indent=1)
            flag = "" if prop in out else ("   <-- MISSED BY OWN CHECK" if out else "   <-- MISSED")
            if prop not in out:
                bad += 1
            print("seed %-8s own=%-5s caught_by=%s%s" % (name, prop in out, sorted(out), flag))
        else:
            rres[name] = dict(silent=not out, alarms=out)
            if out:
                bad += 1
            print("refa %-8s %s" % (name, "silent" if not out else "ALARMS %s" % json.dumps(out)[:400]))
    for (name, why) in skipped:
        print("skip %-8s %s" % (name, why))
        bad += 1
    if want_seeds and not only:
        matrix = dict((k, v) for k, v in matrix.items() if os.path.isdir(os.path.join(sd, k)))
    json.dump(matrix, open(mpath, "w"), indent=1, sort_keys=True)
    if os.path.isdir(os.path.join(sd, "refactorings")):
        json.dump(rres, open(rpath, "w"), indent=1, sort_keys=True)
    print("total %.0fs, %d item(s) need attention" % (time.time() - t0, bad))
    return 0


if __name__ == "__main__":
    sys.exit(main())
