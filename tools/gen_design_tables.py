#!/usr/bin/env python3
"""Refresh the seeded-change table in DESIGN.md from seeded/MATRIX.json."""
import json, os, re
V = os.path.dirname(os.path.dirname(os.path.abspath(__file__)))
m = json.load(open(os.path.join(V, "seeded", "MATRIX.json")))
lines = ["| seed | property | change | checks that fire | first rule of the own check |", "|---|---|---|---|---|"]
own = 0
for s in sorted(m):
    meta = json.load(open(os.path.join(V, "seeded", s, "meta.json")))
    prop = m[s]["property"]
    first = (m[s]["rules"].get(prop) or [""])[0]
    rid = first.split(" | ")[0] if first else "—"
    own += 1 if m[s]["own_check_fires"] else 0
    lines.append("| %s | %s | %s | %s | %s |" % (s, prop, meta.get("summary", "")[:140].replace("|", "/").replace("\n", " "),
                                               ", ".join(m[s]["caught_by"]) or "**none**", rid))
lines.append("")
lines.append("%d seeded changes, %d caught by the check of the property they were written against, %d caught by at least one check."
             % (len(m), own, sum(1 for s in m if m[s]["caught_by"])))
d = open(os.path.join(V, "DESIGN.md")).read()
d = re.sub(r"<!-- SEED-TABLE-BEGIN -->.*<!-- SEED-TABLE-END -->", "<!-- SEED-TABLE-BEGIN -->\n" + "\n".join(lines) + "\n<!-- SEED-TABLE-END -->", d, flags=re.S)
open(os.path.join(V, "DESIGN.md"), "w").write(d)
print("table rows", len(m))
