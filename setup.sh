#!/bin/bash
# Build the fact extractor (a rustc_private driver, zero crate dependencies) and warm the
# dependency cache of the extraction (cargo +nightly check of /repo's dependencies).  Offline.
set -e
cd "$(dirname "$0")"
export CARGO_NET_OFFLINE=true
(cd driver && cargo build --release --offline)
python3 analysis/extract.py lib >/dev/null
echo "setup ok"
